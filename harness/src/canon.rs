//! Canonical state of a `World` (E1, beyond the exhaustive depth): a hash of everything a later read, flush,
//! compaction, journal eviction or recovery decision can depend on, with sequence numbers replaced by their rank.
//!
//! Contents: reference model; per keyspace its internal id, every record of the active memtable, of every sealed
//! memtable (shadowed by the harness: lsm-tree does not expose them) and of every table of every run of every level
//! (key, kind, value, seqno), the tables' global seqnos; the journal files on disk with every journaled operation
//! the harness issued into each (text and seqno); the queued worker messages; the next and the visible sequence number; the oracle's
//! own bookkeeping (C18 automaton, C12 old handles and incarnations).
//! NOT contained (argument why states merged on that basis have the same futures): file and table ids, timestamps,
//! block-cache content (cannot change results); lsm-tree's super-version history (only consulted by reads through
//! snapshots — worlds with live views are never deduplicated); absolute seqno values (fjall and lsm-tree only
//! compare seqnos with each other, never with constants other than "0 = nothing").
//! `None` = this world is not deduplicated (closed database, blob separation: blob handles embed file ids).

use crate::world::*;
use lsm_tree::AbstractTree;
use std::collections::BTreeSet;
use std::hash::{Hash, Hasher};

enum Tok {
    B(Vec<u8>),
    N(u64),
    /// a sequence number: replaced by its rank before hashing
    S(u64),
}

fn item_toks(out: &mut Vec<Tok>, iv: &lsm_tree::InternalValue) {
    out.push(Tok::B(iv.key.user_key.to_vec()));
    out.push(Tok::S(iv.key.seqno));
    out.push(Tok::N(u8::from(iv.key.value_type) as u64));
    out.push(Tok::B(iv.value.to_vec()));
}

/// Records of the active memtable of `h` (used to shadow what a rotation seals).
pub fn active_items(h: &fjall::Keyspace) -> Vec<(Vec<u8>, u64, u8, Vec<u8>)> {
    h.tree.active_memtable().iter().map(|iv| (iv.key.user_key.to_vec(), iv.key.seqno, u8::from(iv.key.value_type), iv.value.to_vec())).collect()
}

impl World {
    /// Keeps `sealed_shadow` in step with the real sealed memtables: called with the active memtable contents taken
    /// before the operation, after every operation.
    pub fn reconcile_sealed(&mut self, pre_active: std::collections::BTreeMap<u8, Vec<(Vec<u8>, u64, u8, Vec<u8>)>>) {
        let kss: Vec<u8> = self.ks.keys().copied().collect();
        self.sealed_shadow.retain(|k, _| kss.contains(k));
        for ks in kss {
            let n = self.ks[&ks].tree.sealed_memtable_count();
            let sh = self.sealed_shadow.entry(ks).or_default();
            while sh.len() > n {
                sh.pop_front();
            }
            if sh.len() < n {
                if sh.len() + 1 == n {
                    sh.push_back(pre_active.get(&ks).cloned().unwrap_or_default());
                } else {
                    // more than one memtable sealed in one operation: not reconstructible, stop deduplicating
                    self.shadow_lost = true;
                }
            }
        }
    }

    pub fn canon_state(&self) -> Option<u64> {
        let db = self.db.as_ref()?;
        if self.cfg.blob || self.shadow_lost {
            return None;
        }
        let mut t: Vec<Tok> = vec![];
        for (ks, m) in &self.model {
            t.push(Tok::N(*ks as u64));
            t.push(Tok::N(m.len() as u64));
            for (k, v) in m {
                t.push(Tok::B(k.clone()));
                t.push(Tok::B(v.clone()));
            }
        }
        for (ks, h) in &self.ks {
            t.push(Tok::N(1000 + *ks as u64));
            t.push(Tok::N(h.id() as u64));
            let am = h.tree.active_memtable();
            t.push(Tok::N(am.len() as u64));
            for iv in am.iter() {
                item_toks(&mut t, &iv);
            }
            let n = h.tree.sealed_memtable_count();
            let sh = self.sealed_shadow.get(ks);
            if sh.map(|s| s.len()).unwrap_or(0) != n {
                return None;
            }
            t.push(Tok::N(n as u64));
            for s in sh.into_iter().flatten() {
                t.push(Tok::N(s.len() as u64));
                for (k, sq, ty, v) in s {
                    t.push(Tok::B(k.clone()));
                    t.push(Tok::S(*sq));
                    t.push(Tok::N(*ty as u64));
                    t.push(Tok::B(v.clone()));
                }
            }
            let ver = h.tree.current_version();
            for (li, level) in ver.iter_levels().enumerate() {
                if level.is_empty() {
                    continue;
                }
                t.push(Tok::N(2000 + li as u64));
                t.push(Tok::N(level.run_count() as u64));
                for run in level.iter() {
                    t.push(Tok::N(run.len() as u64));
                    for table in run.iter() {
                        t.push(Tok::S(table.global_seqno()));
                        let mut cnt = 0u64;
                        for iv in table.iter() {
                            match iv {
                                Ok(iv) => {
                                    item_toks(&mut t, &iv);
                                    cnt += 1;
                                }
                                Err(_) => return None,
                            }
                        }
                        t.push(Tok::N(cnt));
                    }
                }
            }
        }
        // journals
        let files = journal_files(&self.dir);
        t.push(Tok::N(3000 + files.len() as u64));
        if self.track_journals {
            for f in &files {
                let recs = self.journal_records.get(f).cloned().unwrap_or_default();
                t.push(Tok::N(recs.len() as u64));
                for (ks, s) in recs {
                    t.push(Tok::N(ks as u64));
                    t.push(Tok::S(s));
                }
                // what recovery would replay from this file
                for (text, s) in self.journal_ops.get(f).cloned().unwrap_or_default() {
                    t.push(Tok::B(text.into_bytes()));
                    t.push(Tok::S(s));
                }
            }
        }
        for p in self.pending() {
            t.push(Tok::B(p.into_bytes()));
        }
        t.push(Tok::N(4000 + db.inner().verif_flush_tasks() as u64));
        for ks in &self.flush_queue {
            t.push(Tok::N(*ks as u64));
        }
        t.push(Tok::S(db.inner().seqno()));
        t.push(Tok::S(db.inner().visible_seqno()));
        // snapshot tracker: the watermark decides which old versions a compaction may drop
        let (live, watermark) = db.inner().verif_snapshots();
        t.push(Tok::S(watermark));
        t.push(Tok::N(live.len() as u64));
        for (inst, cnt) in live {
            t.push(Tok::S(inst));
            t.push(Tok::N(cnt as u64));
        }
        // oracle bookkeeping
        for (ks, inc) in &self.incarnation {
            t.push(Tok::N(5000 + *ks as u64));
            t.push(Tok::N(*inc as u64));
        }
        for o in &self.old {
            t.push(Tok::N(match o {
                Some((ks, _)) => 6000 + *ks as u64,
                None => 6999,
            }));
        }
        for (ks, k) in &self.filtered_seen {
            t.push(Tok::N(7000 + *ks as u64));
            t.push(Tok::B(k.clone()));
        }
        for (ks, k) in &self.must_filtered {
            t.push(Tok::N(8000 + *ks as u64));
            t.push(Tok::B(k.clone()));
        }
        for ((ks, k), l) in &self.loc {
            t.push(Tok::N(9000 + *ks as u64));
            t.push(Tok::B(k.clone()));
            t.push(Tok::N(*l as u64));
        }
        // ranks
        let seqs: BTreeSet<u64> = t.iter().filter_map(|x| if let Tok::S(s) = x { Some(*s) } else { None }).collect();
        let rank = |s: u64| seqs.range(..s).count() as u64;
        let mut h = std::collections::hash_map::DefaultHasher::new();
        for x in &t {
            match x {
                Tok::B(b) => {
                    0u8.hash(&mut h);
                    b.hash(&mut h);
                }
                Tok::N(n) => {
                    1u8.hash(&mut h);
                    n.hash(&mut h);
                }
                Tok::S(s) => {
                    2u8.hash(&mut h);
                    // 0 is the one absolute value the code treats specially ("nothing yet")
                    (*s == 0).hash(&mut h);
                    rank(*s).hash(&mut h);
                }
            }
        }
        Some(h.finish())
    }
}
