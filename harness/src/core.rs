//! Shared vocabulary: key/value universe, the reference model (a `BTreeMap`
//! per keyspace) and the observation function `observe` that is applied to
//! keyspaces, snapshots and transactions alike.

use fjall::{Guard, Keyspace, Readable};
use std::collections::BTreeMap;
use std::ops::Bound;

pub type Map = BTreeMap<Vec<u8>, Vec<u8>>;

/// Key universe: chosen so that prefixes, range bounds and ordering collide.
pub const KEYS: [&[u8]; 3] = [b"a", b"ab", b"b"];
/// A key that is never written.
pub const NEVER: &[u8] = b"c";
pub const KS_NAMES: [&str; 3] = ["x", "y", "z"];

pub const BIG_LEN: usize = 5000;

/// Deterministic incompressible block (xorshift), above the journal
/// compression threshold (4096) and the blob separation threshold we use.
pub fn big_value(tag: u8) -> Vec<u8> {
    let mut s: u64 = 0x9E37_79B9_7F4A_7C15 ^ u64::from(tag);
    let mut v = Vec::with_capacity(BIG_LEN);
    while v.len() < BIG_LEN {
        s ^= s << 13;
        s ^= s >> 7;
        s ^= s << 17;
        v.extend_from_slice(&s.to_le_bytes());
    }
    v.truncate(BIG_LEN);
    v
}

/// Value universe by index: 0 => "1", 1 => "2", 2 => "" (empty), 3 => BIG
pub fn value(idx: u8) -> Vec<u8> {
    match idx {
        0 => b"1".to_vec(),
        1 => b"2".to_vec(),
        2 => Vec::new(),
        3 => big_value(0),
        4 => {
            // 9000 bytes: a single journal item larger than the journal's 8 KiB write buffer
            let mut v = big_value(1);
            v.extend(big_value(2));
            v.truncate(9000);
            v
        }
        n => format!("v{n}").into_bytes(),
    }
}

pub fn show_val(v: &[u8]) -> String {
    if v.len() > 32 {
        format!("<{}B:{:02x}{:02x}>", v.len(), v[0], v[v.len() - 1])
    } else {
        format!("{:?}", String::from_utf8_lossy(v))
    }
}

pub fn show_key(k: &[u8]) -> String {
    String::from_utf8_lossy(k).into_owned()
}

/// What one view shows of one keyspace: every read method over a fixed probe set.
#[derive(Clone, PartialEq, Eq, Debug, Hash)]
pub struct Obs {
    /// (probe name, result rendering)
    pub items: Vec<(String, String)>,
}

impl Obs {
    pub fn diff(&self, other: &Obs) -> String {
        let mut out = vec![];
        for (a, b) in self.items.iter().zip(other.items.iter()) {
            if a != b {
                out.push(format!("{}: got {} expected {}", a.0, a.1, b.1));
                if out.len() >= 6 {
                    break;
                }
            }
        }
        if self.items.len() != other.items.len() {
            out.push(format!(
                "probe count differs {} vs {}",
                self.items.len(),
                other.items.len()
            ));
        }
        out.join("; ")
    }

    pub fn digest(&self) -> u64 {
        use std::hash::{Hash, Hasher};
        let mut h = std::collections::hash_map::DefaultHasher::new();
        self.hash(&mut h);
        h.finish()
    }
}

fn bound_str(b: &Bound<&[u8]>) -> String {
    match b {
        Bound::Unbounded => "..".into(),
        Bound::Included(k) => format!("={}", show_key(k)),
        Bound::Excluded(k) => format!("!{}", show_key(k)),
    }
}

fn bounds_list() -> Vec<Bound<&'static [u8]>> {
    let mut v = vec![Bound::Unbounded];
    for k in KEYS {
        v.push(Bound::Included(k));
        v.push(Bound::Excluded(k));
    }
    v
}

/// Is (lo, hi) a range `BTreeMap::range` accepts (and every sane map treats as possibly non-empty or trivially empty)?
fn range_ok(lo: &Bound<&[u8]>, hi: &Bound<&[u8]>) -> bool {
    match (lo, hi) {
        (Bound::Unbounded, _) | (_, Bound::Unbounded) => true,
        (Bound::Included(a), Bound::Included(b)) => a <= b,
        (Bound::Included(a), Bound::Excluded(b)) => a <= b,
        (Bound::Excluded(a), Bound::Included(b)) => a <= b,
        (Bound::Excluded(a), Bound::Excluded(b)) => a < b,
    }
}

pub const PREFIXES: [&[u8]; 5] = [b"", b"a", b"ab", b"b", b"c"];

fn kv_str(k: &[u8], v: &[u8]) -> String {
    format!("{}={}", show_key(k), show_val(v))
}

fn render_guard(g: Guard) -> String {
    match g.into_inner() {
        Ok((k, v)) => kv_str(&k, &v),
        Err(e) => format!("ERR({e:?})"),
    }
}

fn render_iter(it: impl Iterator<Item = Guard>) -> String {
    let v: Vec<String> = it.map(render_guard).collect();
    format!("[{}]", v.join(","))
}

fn render_pingpong(mut it: impl DoubleEndedIterator<Item = Guard>) -> String {
    let mut v = vec![];
    let mut front = true;
    loop {
        let n = if front { it.next() } else { it.next_back() };
        match n {
            Some(g) => v.push(format!("{}{}", if front { "<" } else { ">" }, render_guard(g))),
            None => break,
        }
        front = !front;
    }
    format!("[{}]", v.join(","))
}

fn res_opt_val(r: fjall::Result<Option<fjall::UserValue>>) -> String {
    match r {
        Ok(Some(v)) => show_val(&v),
        Ok(None) => "-".into(),
        Err(e) => format!("ERR({e:?})"),
    }
}
fn res_bool(r: fjall::Result<bool>) -> String {
    match r {
        Ok(b) => b.to_string(),
        Err(e) => format!("ERR({e:?})"),
    }
}
fn res_opt_u32(r: fjall::Result<Option<u32>>) -> String {
    match r {
        Ok(Some(v)) => v.to_string(),
        Ok(None) => "-".into(),
        Err(e) => format!("ERR({e:?})"),
    }
}
fn res_usize(r: fjall::Result<usize>) -> String {
    match r {
        Ok(v) => v.to_string(),
        Err(e) => format!("ERR({e:?})"),
    }
}

/// How much of the probe set to evaluate.
#[derive(Clone, Copy, PartialEq, Eq, Debug)]
pub enum Probe {
    /// everything (49 ranges)
    Full,
    /// point reads, iter fwd/rev/pingpong, 12 ranges, prefixes, first/last/len/is_empty
    Lite,
}

fn ranges(p: Probe) -> Vec<(Bound<&'static [u8]>, Bound<&'static [u8]>)> {
    let bl = bounds_list();
    let mut out = vec![];
    for lo in &bl {
        for hi in &bl {
            if !range_ok(lo, hi) {
                continue;
            }
            out.push((*lo, *hi));
        }
    }
    if p == Probe::Lite {
        // every bound kind appears on both sides at least once
        let keep: Vec<usize> = (0..out.len()).filter(|i| i % 3 == 0).collect();
        out = keep.into_iter().map(|i| out[i]).collect();
    }
    out
}

macro_rules! observe_body {
    ($items:ident, $p:ident, $get:expr, $contains:expr, $size_of:expr, $iter:expr, $range:expr, $prefix:expr, $first:expr, $last:expr, $len:expr, $is_empty:expr) => {{
        for k in KEYS.iter().copied().chain(std::iter::once(NEVER)) {
            $items.push((format!("get({})", show_key(k)), res_opt_val($get(k))));
            $items.push((format!("contains({})", show_key(k)), res_bool($contains(k))));
            $items.push((format!("size_of({})", show_key(k)), res_opt_u32($size_of(k))));
        }
        $items.push(("iter".to_string(), render_iter($iter())));
        $items.push(("iter.rev".to_string(), render_iter($iter().rev())));
        $items.push(("iter.pingpong".to_string(), render_pingpong($iter())));
        for (lo, hi) in ranges($p) {
            let name = format!("range({},{})", bound_str(&lo), bound_str(&hi));
            $items.push((name.clone(), render_iter($range((lo, hi)))));
            if $p == Probe::Full {
                $items.push((format!("{name}.rev"), render_iter($range((lo, hi)).rev())));
            }
        }
        for pf in PREFIXES {
            $items.push((format!("prefix({})", show_key(pf)), render_iter($prefix(pf))));
            $items.push((format!("prefix({}).pingpong", show_key(pf)), render_pingpong($prefix(pf))));
        }
        $items.push(("first".to_string(), $first().map(render_guard).unwrap_or_else(|| "-".into())));
        $items.push(("last".to_string(), $last().map(render_guard).unwrap_or_else(|| "-".into())));
        $items.push(("len".to_string(), res_usize($len())));
        $items.push(("is_empty".to_string(), res_bool($is_empty())));
    }};
}

/// Observation of a keyspace handle through its inherent read methods.
pub fn observe_ks(ks: &Keyspace, p: Probe) -> Obs {
    let mut items = Vec::with_capacity(96);
    observe_body!(
        items,
        p,
        |k: &[u8]| ks.get(k),
        |k: &[u8]| ks.contains_key(k),
        |k: &[u8]| ks.size_of(k),
        || ks.iter(),
        |r: (Bound<&[u8]>, Bound<&[u8]>)| ks.range::<&[u8], _>(r),
        |pf: &[u8]| ks.prefix(pf),
        || ks.first_key_value(),
        || ks.last_key_value(),
        || ks.len(),
        || ks.is_empty()
    );
    Obs { items }
}

/// Observation through any `Readable` view (snapshot, read tx, write tx).
pub fn observe_view<R: Readable>(view: &R, ks: &Keyspace, p: Probe) -> Obs {
    let mut items = Vec::with_capacity(96);
    observe_body!(
        items,
        p,
        |k: &[u8]| view.get(ks, k),
        |k: &[u8]| view.contains_key(ks, k),
        |k: &[u8]| view.size_of(ks, k),
        || view.iter(ks),
        |r: (Bound<&[u8]>, Bound<&[u8]>)| view.range::<&[u8], _>(ks, r),
        |pf: &[u8]| view.prefix(ks, pf),
        || view.first_key_value(ks),
        || view.last_key_value(ks),
        || view.len(ks),
        || view.is_empty(ks)
    );
    Obs { items }
}

/// The same observation computed from the reference map.
pub fn observe_model(m: &Map, p: Probe) -> Obs {
    let mut items = Vec::with_capacity(96);
    let all: Vec<(&Vec<u8>, &Vec<u8>)> = m.iter().collect();
    let render = |v: &[(&Vec<u8>, &Vec<u8>)]| -> String {
        let s: Vec<String> = v.iter().map(|(k, v)| kv_str(k, v)).collect();
        format!("[{}]", s.join(","))
    };
    let render_rev = |v: &[(&Vec<u8>, &Vec<u8>)]| -> String {
        let s: Vec<String> = v.iter().rev().map(|(k, v)| kv_str(k, v)).collect();
        format!("[{}]", s.join(","))
    };
    let pingpong = |v: &[(&Vec<u8>, &Vec<u8>)]| -> String {
        let mut out = vec![];
        let (mut i, mut j) = (0usize, v.len());
        let mut front = true;
        while i < j {
            if front {
                out.push(format!("<{}", kv_str(v[i].0, v[i].1)));
                i += 1;
            } else {
                j -= 1;
                out.push(format!(">{}", kv_str(v[j].0, v[j].1)));
            }
            front = !front;
        }
        format!("[{}]", out.join(","))
    };
    for k in KEYS.iter().copied().chain(std::iter::once(NEVER)) {
        let v = m.get(k);
        items.push((
            format!("get({})", show_key(k)),
            v.map(|v| show_val(v)).unwrap_or_else(|| "-".into()),
        ));
        items.push((format!("contains({})", show_key(k)), v.is_some().to_string()));
        items.push((
            format!("size_of({})", show_key(k)),
            v.map(|v| v.len().to_string()).unwrap_or_else(|| "-".into()),
        ));
    }
    items.push(("iter".into(), render(&all)));
    items.push(("iter.rev".into(), render_rev(&all)));
    items.push(("iter.pingpong".into(), pingpong(&all)));
    for (lo, hi) in ranges(p) {
        let name = format!("range({},{})", bound_str(&lo), bound_str(&hi));
        let sel: Vec<(&Vec<u8>, &Vec<u8>)> = all
            .iter()
            .copied()
            .filter(|(k, _)| {
                let k: &[u8] = k;
                (match lo {
                    Bound::Unbounded => true,
                    Bound::Included(b) => k >= b,
                    Bound::Excluded(b) => k > b,
                }) && (match hi {
                    Bound::Unbounded => true,
                    Bound::Included(b) => k <= b,
                    Bound::Excluded(b) => k < b,
                })
            })
            .collect();
        items.push((name.clone(), render(&sel)));
        if p == Probe::Full {
            items.push((format!("{name}.rev"), render_rev(&sel)));
        }
    }
    for pf in PREFIXES {
        let sel: Vec<(&Vec<u8>, &Vec<u8>)> =
            all.iter().copied().filter(|(k, _)| k.starts_with(pf)).collect();
        items.push((format!("prefix({})", show_key(pf)), render(&sel)));
        items.push((format!("prefix({}).pingpong", show_key(pf)), pingpong(&sel)));
    }
    items.push((
        "first".into(),
        all.first().map(|(k, v)| kv_str(k, v)).unwrap_or_else(|| "-".into()),
    ));
    items.push((
        "last".into(),
        all.last().map(|(k, v)| kv_str(k, v)).unwrap_or_else(|| "-".into()),
    ));
    items.push(("len".into(), all.len().to_string()));
    items.push(("is_empty".into(), all.is_empty().to_string()));
    Obs { items }
}

/// Plain content of a keyspace via a full forward scan (used for diffs and re-synchronisation).
pub fn scan_ks(ks: &Keyspace) -> Result<Map, String> {
    let mut m = Map::new();
    for g in ks.iter() {
        let (k, v) = g.into_inner().map_err(|e| format!("{e:?}"))?;
        m.insert(k.to_vec(), v.to_vec());
    }
    Ok(m)
}

pub fn show_map(m: &Map) -> String {
    let s: Vec<String> = m.iter().map(|(k, v)| kv_str(k, v)).collect();
    format!("{{{}}}", s.join(","))
}
