//! E2 utilities: directory images (sparse-aware copies), journal surgery,
//! recovery + observation of an image, prefix oracle.

use crate::core::*;
use crate::world::*;
use fjall::KeyspaceCreateOptions;
use std::collections::BTreeMap;
use std::fs::File;
use std::io::{Read, Seek, SeekFrom, Write};
use std::os::unix::io::AsRawFd;
use std::path::{Path, PathBuf};

pub type Content = BTreeMap<String, Map>;

/// Copies a file preserving holes (the journals are 64 MiB sparse files).
pub fn copy_file_sparse(src: &Path, dst: &Path) -> std::io::Result<()> {
    let mut s = File::open(src)?;
    let len = s.metadata()?.len();
    let mut d = File::create(dst)?;
    d.set_len(len)?;
    let fd = s.as_raw_fd();
    let mut pos: i64 = 0;
    let mut buf = vec![0u8; 1 << 16];
    loop {
        if pos as u64 >= len {
            break;
        }
        let data = unsafe { libc::lseek(fd, pos, libc::SEEK_DATA) };
        if data < 0 {
            break; // ENXIO: no more data
        }
        let mut hole = unsafe { libc::lseek(fd, data, libc::SEEK_HOLE) };
        if hole < 0 {
            hole = len as i64;
        }
        s.seek(SeekFrom::Start(data as u64))?;
        d.seek(SeekFrom::Start(data as u64))?;
        let mut left = (hole - data) as usize;
        while left > 0 {
            let n = left.min(buf.len());
            s.read_exact(&mut buf[..n])?;
            // skip all-zero chunks (keeps the copy sparse even if the source extent is not)
            if buf[..n].iter().any(|b| *b != 0) {
                d.write_all(&buf[..n])?;
            } else {
                d.seek(SeekFrom::Current(n as i64))?;
            }
            left -= n;
        }
        pos = hole;
    }
    Ok(())
}

pub fn copy_tree(src: &Path, dst: &Path) -> std::io::Result<()> {
    std::fs::create_dir_all(dst)?;
    for e in std::fs::read_dir(src)? {
        let e = e?;
        let ft = e.file_type()?;
        let to = dst.join(e.file_name());
        if ft.is_dir() {
            copy_tree(&e.path(), &to)?;
        } else if ft.is_file() {
            copy_file_sparse(&e.path(), &to)?;
        }
    }
    Ok(())
}

/// Index of the last non-zero byte + 1 (journal records end in the non-zero trailer `FJL\x03`).
pub fn used_len(path: &Path) -> std::io::Result<u64> {
    let mut f = File::open(path)?;
    let len = f.metadata()?.len();
    let fd = f.as_raw_fd();
    let mut last: u64 = 0;
    let mut pos: i64 = 0;
    let mut buf = vec![0u8; 1 << 16];
    loop {
        if pos as u64 >= len {
            break;
        }
        let data = unsafe { libc::lseek(fd, pos, libc::SEEK_DATA) };
        if data < 0 {
            break;
        }
        let mut hole = unsafe { libc::lseek(fd, data, libc::SEEK_HOLE) };
        if hole < 0 {
            hole = len as i64;
        }
        f.seek(SeekFrom::Start(data as u64))?;
        let mut off = data as u64;
        let mut left = (hole - data) as usize;
        while left > 0 {
            let n = left.min(buf.len());
            f.read_exact(&mut buf[..n])?;
            if let Some(i) = buf[..n].iter().rposition(|b| *b != 0) {
                last = off + i as u64 + 1;
            }
            off += n as u64;
            left -= n;
        }
        pos = hole;
    }
    Ok(last)
}

pub fn read_prefix(path: &Path, n: u64) -> std::io::Result<Vec<u8>> {
    let mut f = File::open(path)?;
    let mut v = vec![0u8; n as usize];
    f.read_exact(&mut v)?;
    Ok(v)
}

pub fn active_journal(dir: &Path) -> Option<PathBuf> {
    journal_files(dir).last().map(|n| dir.join(n))
}

#[derive(Debug, Clone)]
pub enum Recovered {
    /// open returned an error
    OpenErr(String),
    /// open (or a read) panicked
    Panic(String),
    /// content per keyspace; `inconsistent` = some read method disagrees with a forward scan
    Ok { content: Content, inconsistent: Option<String> },
}

fn hex(b: &[u8]) -> String {
    b.iter().map(|x| format!("{x:02x}")).collect()
}
fn unhex(s: &str) -> Vec<u8> {
    (0..s.len() / 2).filter_map(|i| u8::from_str_radix(&s[2 * i..2 * i + 2], 16).ok()).collect()
}

impl Recovered {
    pub fn to_json(&self) -> serde_json::Value {
        use serde_json::json;
        match self {
            Recovered::OpenErr(e) => json!({"t": "err", "m": e}),
            Recovered::Panic(e) => json!({"t": "panic", "m": e}),
            Recovered::Ok { content, inconsistent } => json!({
                "t": "ok",
                "i": inconsistent,
                "c": content.iter().map(|(k, m)| (k.clone(), serde_json::Value::Object(m.iter().map(|(a, b)| (hex(a), serde_json::Value::String(hex(b)))).collect()))).collect::<serde_json::Map<_, _>>(),
            }),
        }
    }
    pub fn from_json(v: &serde_json::Value) -> Recovered {
        match v["t"].as_str().unwrap_or("") {
            "err" => Recovered::OpenErr(v["m"].as_str().unwrap_or("").to_string()),
            "ok" => {
                let mut content = Content::new();
                if let Some(o) = v["c"].as_object() {
                    for (k, m) in o {
                        let mut mm = Map::new();
                        if let Some(mo) = m.as_object() {
                            for (a, b) in mo {
                                mm.insert(unhex(a), unhex(b.as_str().unwrap_or("")));
                            }
                        }
                        content.insert(k.clone(), mm);
                    }
                }
                Recovered::Ok { content, inconsistent: v["i"].as_str().map(String::from) }
            }
            _ => Recovered::Panic(v["m"].as_str().unwrap_or("panic").to_string()),
        }
    }
}

struct Helper {
    child: std::process::Child,
    stdin: std::process::ChildStdin,
    stdout: std::io::BufReader<std::process::ChildStdout>,
}

impl Drop for Helper {
    fn drop(&mut self) {
        let _ = self.child.kill();
        let _ = self.child.wait();
    }
}

thread_local! {
    static HELPER: std::cell::RefCell<Option<Helper>> = const { std::cell::RefCell::new(None) };
    static IN_HELPER: std::cell::Cell<bool> = const { std::cell::Cell::new(false) };
}

fn spawn_helper() -> Option<Helper> {
    let exe = std::env::current_exe().ok()?;
    let mut child = std::process::Command::new(exe)
        .arg("recover-server")
        .env_remove("LD_PRELOAD")
        .stdin(std::process::Stdio::piped())
        .stdout(std::process::Stdio::piped())
        .stderr(std::process::Stdio::null())
        .spawn()
        .ok()?;
    let stdin = child.stdin.take()?;
    let stdout = std::io::BufReader::new(child.stdout.take()?);
    Some(Helper { child, stdin, stdout })
}

/// Serves recovery requests (`<cfgspec>\t<dir>` per line) until stdin closes. A recovery that aborts the
/// process (e.g. a panic inside a destructor while unwinding) only kills this helper.
pub fn recover_server_main() -> i32 {
    use std::io::BufRead;
    IN_HELPER.with(|h| h.set(true));
    let stdin = std::io::stdin();
    let mut out = std::io::stdout();
    for line in stdin.lock().lines() {
        let Ok(line) = line else { break };
        let Some((spec, dir)) = line.split_once('\t') else { continue };
        let Some(cfg) = Cfg::from_spec(spec) else { continue };
        let r = recover_and_observe_inproc(Path::new(dir), &cfg);
        let _ = writeln!(out, "{}", r.to_json());
        let _ = out.flush();
    }
    0
}

/// Opens the image (no shim, no worker threads), observes every listed keyspace, closes. Runs in a helper
/// process (one per harness thread, reused), so that a recovery that aborts is an observation, not the end of the run.
pub fn recover_and_observe(dir: &Path, cfg: &Cfg) -> Recovered {
    if IN_HELPER.with(|h| h.get()) || std::env::var("FJV_INPROC_RECOVER").is_ok() {
        return recover_and_observe_inproc(dir, cfg);
    }
    HELPER.with(|cell| {
        let mut slot = cell.borrow_mut();
        for _attempt in 0..2 {
            if slot.is_none() {
                *slot = spawn_helper();
            }
            let Some(h) = slot.as_mut() else {
                return recover_and_observe_inproc(dir, cfg);
            };
            use std::io::BufRead;
            if writeln!(h.stdin, "{}\t{}", cfg.to_spec(), dir.display()).is_err() || h.stdin.flush().is_err() {
                *slot = None;
                continue;
            }
            let mut line = String::new();
            match h.stdout.read_line(&mut line) {
                Ok(n) if n > 0 => {
                    if let Ok(v) = serde_json::from_str::<serde_json::Value>(&line) {
                        return Recovered::from_json(&v);
                    }
                    *slot = None;
                    return Recovered::Panic("helper returned garbage".into());
                }
                _ => {
                    // helper died while recovering this image
                    let status = h.child.wait().map(|s| format!("{s}")).unwrap_or_default();
                    *slot = None;
                    return Recovered::Panic(format!("recovery aborted the process ({status})"));
                }
            }
        }
        recover_and_observe_inproc(dir, cfg)
    })
}

pub fn recover_and_observe_inproc(dir: &Path, cfg: &Cfg) -> Recovered {
    if let Ok(k) = std::env::var("FJV_KEEP_IMAGES") {
        static N: std::sync::atomic::AtomicU64 = std::sync::atomic::AtomicU64::new(0);
        let n = N.fetch_add(1, std::sync::atomic::Ordering::Relaxed);
        let _ = copy_tree(dir, &Path::new(&k).join(format!("{n}")));
    }
    let r = std::panic::catch_unwind(std::panic::AssertUnwindSafe(|| {
        let db = match open_db(dir, cfg, &None) {
            Ok(d) => d,
            Err(e) => return Recovered::OpenErr(format!("{e:?}")),
        };
        let mut content = Content::new();
        let mut inconsistent = None;
        let mut names: Vec<String> =
            db.inner().list_keyspace_names().iter().map(|s| s.to_string()).collect();
        names.sort();
        for n in names {
            let h = match db.inner().keyspace(&n, KeyspaceCreateOptions::default) {
                Ok(h) => h,
                Err(e) => return Recovered::OpenErr(format!("keyspace {n}: {e:?}")),
            };
            let m = match scan_ks(&h) {
                Ok(m) => m,
                Err(e) => return Recovered::OpenErr(format!("scan {n}: {e}")),
            };
            let got = observe_ks(&h, Probe::Lite);
            let want = observe_model(&m, Probe::Lite);
            if got != want && inconsistent.is_none() {
                inconsistent = Some(format!("keyspace {n}: {}", got.diff(&want)));
            }
            content.insert(n, m);
        }
        Recovered::Ok { content, inconsistent }
    }));
    match r {
        Ok(r) => r,
        Err(_) => Recovered::Panic(crate::explore::take_panic_msg()),
    }
}

pub fn model_content(model: &BTreeMap<u8, Map>) -> Content {
    model.iter().map(|(k, v)| (ksn(*k).to_string(), v.clone())).collect()
}

pub fn show_content(c: &Content) -> String {
    c.iter().map(|(k, v)| format!("{k}:{}", show_map(v))).collect::<Vec<_>>().join(" ")
}

/// A recorded run: model state after each operation, journal bookkeeping.
pub struct History {
    pub cfg: Cfg,
    pub ops: Vec<Op>,
    /// states[i] = content after i operations (states[0] = freshly created keyspaces)
    pub states: Vec<Content>,
    /// sync_fence[i]: once op i has returned, everything up to and including it survives a power loss
    /// (persist(SyncData|SyncAll), a commit with such durability, a finished journal rotation, a database drop)
    pub sync_fence: Vec<bool>,
    /// buffer_fence[i]: once op i has returned, everything up to it survives a process crash even with manual journal persist
    pub buffer_fence: Vec<bool>,
}

/// Which prefix (if any) within lo..=hi the recovered content equals.
pub fn matching_prefix(h: &History, got: &Content, lo: usize, hi: usize) -> Option<usize> {
    (lo..=hi.min(h.states.len() - 1)).find(|p| &h.states[*p] == got)
}

/// Runs `ops` on a fresh world in `dir` (kept open, returned), recording model states.
pub fn record(dir: PathBuf, cfg: Cfg, ops: &[Op]) -> Result<(World, History), Violation> {
    let mut w = World::new(dir, cfg.clone())?;
    let mut states = vec![model_content(&w.model)];
    let mut sync_fence = vec![];
    let mut buffer_fence = vec![];
    for op in ops {
        let jb = journal_files(&w.dir);
        w.apply(op)?;
        let ja = journal_files(&w.dir);
        let rotated = ja.iter().any(|j| !jb.contains(j));
        let sf = rotated
            || matches!(op, Op::Persist { mode } if *mode >= 1)
            || matches!(op, Op::BatchD(_, d) | Op::TxD(_, d) if *d >= 2)
            || matches!(op, Op::Reopen);
        let bf = sf
            || matches!(op, Op::Persist { .. })
            || matches!(op, Op::BatchD(_, d) | Op::TxD(_, d) if *d >= 1)
            || (!cfg.manual_persist && matches!(op, Op::Ins { .. } | Op::Rem { .. } | Op::Batch(_) | Op::Tx(_) | Op::Clear { .. }));
        sync_fence.push(sf);
        buffer_fence.push(bf);
        states.push(model_content(&w.model));
    }
    Ok((w, History { cfg, ops: ops.to_vec(), states, sync_fence, buffer_fence }))
}

/// Truncates `file` to `c` bytes; with `pad` re-extends it with zeros to `full` bytes.
pub fn cut_file(file: &Path, c: u64, pad: Option<u64>) -> std::io::Result<()> {
    let f = std::fs::OpenOptions::new().write(true).open(file)?;
    f.set_len(c)?;
    if let Some(full) = pad {
        f.set_len(full)?;
    }
    Ok(())
}

pub fn write_at(file: &Path, off: u64, bytes: &[u8]) -> std::io::Result<()> {
    let mut f = std::fs::OpenOptions::new().write(true).open(file)?;
    f.seek(SeekFrom::Start(off))?;
    f.write_all(bytes)
}
