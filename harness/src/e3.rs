//! E3 framework: bodies (small multi-threaded programs over the real database), one execution per
//! schedule, sharded exploration across child processes, aggregation into an Outcome.

use crate::explore::fresh_dir;
use crate::report::*;
use crate::sched::*;
use crate::world::Violation;
use serde_json::{json, Value};
use std::collections::BTreeSet;
use std::path::{Path, PathBuf};
use std::sync::Arc;
use std::time::{Duration, Instant};

pub trait Body: Sync {
    fn name(&self) -> String;
    /// Per execution, on the (uncontrolled) main thread: create the database, prepare data, spawn the client
    /// threads with `spawn_client` (they park until scheduled). Must not keep any database handle.
    /// Returns the join handles and a judge closure evaluated after the execution ended.
    fn launch(&self, dir: &Path) -> Launched;
    /// does a deadlock / livelock violate the property this body serves?
    fn progress_required(&self) -> bool {
        true
    }
}

pub struct Launched {
    pub handles: Vec<std::thread::JoinHandle<()>>,
    /// evaluated after all threads finished: Ok(outcome description) or a violation
    pub judge: Box<dyn FnOnce(&Path) -> Result<String, Violation>>,
}

pub struct OnceResult {
    pub verdict: Result<String, Violation>,
}

pub fn run_once(body: &dyn Body, choices: &[usize]) -> Exec<OnceResult> {
    let s = sched();
    s.begin(choices.to_vec());
    PANICS.lock().unwrap().clear();
    let dir = fresh_dir();
    let launched = body.launch(&dir);
    let (end, trace, names) = s.run_to_end(Duration::from_secs(30));
    let verdict = match &end {
        EndState::AllFinished => {
            for h in launched.handles {
                let _ = h.join();
            }
            let panics = PANICS.lock().unwrap().clone();
            if !panics.is_empty() {
                Err(Violation::new("panic", panics.join(" | ")))
            } else {
                let j = launched.judge;
                match std::panic::catch_unwind(std::panic::AssertUnwindSafe(|| j(&dir))) {
                    Ok(v) => v,
                    Err(_) => Err(Violation::new("judge.panic", crate::explore::take_panic_msg())),
                }
            }
        }
        EndState::Deadlock(d) => {
            if body.progress_required() { Err(Violation::new("deadlock", d.clone())) } else { Ok("deadlock".into()) }
        }
        EndState::Livelock(d) => {
            if body.progress_required() { Err(Violation::new("livelock", d.clone())) } else { Ok("livelock".into()) }
        }
        EndState::Diverged(d) => Err(Violation::new("machinery.diverged", d.clone())),
        EndState::Stuck(d) => Err(Violation::new("machinery.stuck", d.clone())),
    };
    if matches!(end, EndState::AllFinished) {
        let _ = std::fs::remove_dir_all(&dir);
    }
    Exec { end, trace, names, result: OnceResult { verdict } }
}

#[derive(Default)]
pub struct BodyReport {
    pub schedules: u64,
    pub decisions: u64,
    pub capped: bool,
    pub outcomes: BTreeSet<String>,
    pub max_preemptions: usize,
    pub replay_checks: u64,
    pub replay_divergences: u64,
    /// min over shards of the completed preemption bound (-1 = not even bound 0)
    pub completed_bound: i64,
    pub shards: u64,
    /// (clause, detail, choices, trace)
    pub violations: Vec<(String, String, Vec<usize>, Vec<String>)>,
    pub machinery: Vec<String>,
    pub sample_traces: Vec<Vec<String>>,
}

impl BodyReport {
    pub fn to_json(&self) -> Value {
        json!({
            "schedules": self.schedules, "decisions": self.decisions, "capped": self.capped,
            "outcomes": self.outcomes.iter().collect::<Vec<_>>(), "max_preemptions": self.max_preemptions,
            "replay_checks": self.replay_checks, "replay_divergences": self.replay_divergences, "completed_bound": self.completed_bound,
            "violations": self.violations.iter().map(|(c, d, ch, t)| json!({"clause": c, "detail": d, "choices": ch, "trace": t})).collect::<Vec<_>>(),
            "machinery": self.machinery, "sample_traces": self.sample_traces,
        })
    }
    pub fn merge_json(&mut self, v: &Value) {
        self.schedules += v["schedules"].as_u64().unwrap_or(0);
        self.decisions += v["decisions"].as_u64().unwrap_or(0);
        self.capped |= v["capped"].as_bool().unwrap_or(false);
        for o in v["outcomes"].as_array().cloned().unwrap_or_default() {
            if let Some(s) = o.as_str() {
                self.outcomes.insert(s.to_string());
            }
        }
        self.max_preemptions = self.max_preemptions.max(v["max_preemptions"].as_u64().unwrap_or(0) as usize);
        self.replay_checks += v["replay_checks"].as_u64().unwrap_or(0);
        self.replay_divergences += v["replay_divergences"].as_u64().unwrap_or(0);
        let cb = v["completed_bound"].as_i64().unwrap_or(-1);
        self.completed_bound = if self.shards == 0 { cb } else { self.completed_bound.min(cb) };
        self.shards += 1;
        for x in v["violations"].as_array().cloned().unwrap_or_default() {
            self.violations.push((
                x["clause"].as_str().unwrap_or("").to_string(),
                x["detail"].as_str().unwrap_or("").to_string(),
                x["choices"].as_array().map(|a| a.iter().filter_map(|c| c.as_u64().map(|c| c as usize)).collect()).unwrap_or_default(),
                x["trace"].as_array().map(|a| a.iter().filter_map(|c| c.as_str().map(String::from)).collect()).unwrap_or_default(),
            ));
        }
        for m in v["machinery"].as_array().cloned().unwrap_or_default() {
            if let Some(s) = m.as_str() {
                self.machinery.push(s.to_string());
            }
        }
        for t in v["sample_traces"].as_array().cloned().unwrap_or_default() {
            if self.sample_traces.len() < 3 {
                self.sample_traces.push(t.as_array().map(|a| a.iter().filter_map(|c| c.as_str().map(String::from)).collect()).unwrap_or_default());
            }
        }
    }
}

/// Explores one body in this process (one shard).
pub fn explore_body(body: &dyn Body, bound: usize, deadline: Instant, shard: (usize, usize)) -> BodyReport {
    let mut rep = BodyReport::default();
    let mut run = |choices: &[usize]| run_once(body, choices);
    let mut violations = vec![];
    let mut outcomes = BTreeSet::new();
    let mut machinery = vec![];
    let mut samples: Vec<Vec<String>> = vec![];
    let mut visit = |x: &Exec<OnceResult>, choices: &[usize]| -> bool {
        match &x.result.verdict {
            Ok(o) => {
                outcomes.insert(o.clone());
                if samples.len() < 2 || (samples.len() < 3 && preemptions(&x.trace) >= 2) {
                    samples.push(trace_str(&x.trace, &x.names));
                }
            }
            Err(v) => {
                if v.clause.starts_with("machinery") {
                    machinery.push(format!("{}: {}", v.clause, v.detail));
                    return machinery.len() < 3;
                }
                if violations.len() < 40 {
                    violations.push((v.clause.clone(), v.detail.clone(), choices.to_vec(), trace_str(&x.trace, &x.names)));
                }
            }
        }
        true
    };
    let st = explore_schedules(bound, deadline, shard, &mut run, &mut visit);
    rep.schedules = st.schedules;
    rep.decisions = st.decisions;
    rep.capped = st.capped;
    rep.max_preemptions = st.max_preemptions_seen;
    rep.replay_checks = st.replay_checks;
    rep.replay_divergences = st.replay_divergences;
    rep.completed_bound = st.completed_bound.map(|b| b as i64).unwrap_or(-1);
    rep.outcomes = outcomes;
    rep.violations = violations;
    rep.machinery = machinery;
    rep.sample_traces = samples;
    rep
}

/// Parent side: runs `nshards` child processes `fjv e3shard <prop> <tier> <body index> <shard> <nshards> <bound> <secs> <out>`.
pub fn explore_body_sharded(prop: &str, tier: &str, body_idx: usize, bound: usize, secs: f64, nshards: usize) -> BodyReport {
    let exe = std::env::current_exe().expect("exe");
    let outdir = fresh_dir();
    std::fs::create_dir_all(&outdir).expect("outdir");
    let mut children = vec![];
    for sh in 0..nshards {
        let out = outdir.join(format!("s{sh}.json"));
        let mut cmd = std::process::Command::new(&exe);
        if prop == "C13" {
            // fault injection inside E3 bodies: the shim is loaded in log mode (no log file) and armed by the body
            cmd.env("LD_PRELOAD", crate::shimrun::shim_path()).env("FJALLFS_ROOT", "/dev/shm").env("FJALLFS_MODE", "log");
        }
        let c = cmd
            .args(["e3shard", prop, tier, &body_idx.to_string(), &sh.to_string(), &nshards.to_string(), &bound.to_string(), &format!("{secs}")])
            .arg(&out)
            .stdout(std::process::Stdio::null())
            .stderr(std::process::Stdio::piped())
            .spawn()
            .expect("spawn shard");
        children.push((c, out));
    }
    let mut rep = BodyReport::default();
    for (c, out) in children {
        let o = c.wait_with_output().expect("wait shard");
        match std::fs::read_to_string(&out).ok().and_then(|s| serde_json::from_str::<Value>(&s).ok()) {
            Some(v) => rep.merge_json(&v),
            None => rep.machinery.push(format!(
                "shard produced no result (exit {:?}): {}",
                o.status.code(),
                String::from_utf8_lossy(&o.stderr).chars().take(400).collect::<String>()
            )),
        }
    }
    let _ = std::fs::remove_dir_all(&outdir);
    rep
}

/// Scheduling points right before an operation that makes lsm-tree install a new tree version (which draws a
/// seqno and raises the shared visible seqno) WITHOUT holding fjall's journal lock: flush registration, compaction,
/// meta-keyspace create/remove. On the unchanged tree these are the only version upgrades that can fall between two
/// memtable applies of someone else's batch (the recorded known finding).
const VERSION_UPGRADE_SITES: [&str; 5] = ["flush.got_watermark", "worker.before_compact", "meta.create.before_finish", "meta.remove.before_finish", "meta.remove.finished"];

/// Version upgrades that fjall performs under the journal lock (clear, bulk ingestion): they can only fall into
/// another commit's window if that lock is not held where it should be — never part of the known finding.
const LOCKED_UPGRADE_SITES: [(&str, &str); 2] = [("clear.before_apply", "clear"), ("ingest.locked", "ingestion")];

/// Sites of *other* threads' steps that ran while some thread was between its first memtable apply
/// (`*.before_item` / `*.before_apply`) and its publish (`*.before_publish`): names what interleaved mid-commit.
pub fn interleaved_sites(trace: &[String]) -> String {
    let parse = |s: &str| -> (String, String) {
        let (t, rest) = s.split_once(':').unwrap_or(("", s));
        let site = rest.rsplit_once('@').map(|x| x.1).unwrap_or("");
        (t.to_string(), site.to_string())
    };
    let steps: Vec<(String, String)> = trace.iter().map(|s| parse(s)).collect();
    let mut out: BTreeSet<String> = BTreeSet::new();
    let mut open: Option<String> = None; // thread currently mid-commit
    for (t, site) in &steps {
        match &open {
            None => {
                if site.ends_with(".before_item") || site.ends_with(".before_apply") {
                    open = Some(t.clone());
                }
            }
            Some(w) => {
                if t == w {
                    if site.ends_with(".before_publish") {
                        open = None;
                    }
                } else if VERSION_UPGRADE_SITES.contains(&site.as_str()) {
                    out.insert("lsm-version-upgrade".to_string());
                } else if let Some((_, what)) = LOCKED_UPGRADE_SITES.iter().find(|(s, _)| s == site) {
                    out.insert(format!("{what}-inside-foreign-commit"));
                }
            }
        }
    }
    out.into_iter().collect::<Vec<_>>().join("+")
}

pub struct BodySpec {
    pub body: Arc<dyn Body + Send>,
    pub bound: usize,
    pub secs: f64,
}

/// The same body with every lock acquisition as a scheduling point (see `sched::ALL_LOCKS`).
pub struct AllLocks(pub Arc<dyn Body + Send>);

impl Body for AllLocks {
    fn name(&self) -> String {
        format!("{} [all-locks]", self.0.name())
    }
    fn launch(&self, dir: &Path) -> Launched {
        self.0.launch(dir)
    }
    fn progress_required(&self) -> bool {
        self.0.progress_required()
    }
}

/// Thorough tier: every body is explored a second time with the lock fast path switched off — acquiring a free lock
/// is then a scheduling point as well, which covers code that touches shared state between its last hooked point and
/// a lock acquisition (the quick tier assumes that stretch is local, except for the journal lock).
pub fn with_variants(mut v: Vec<BodySpec>, tier: &str) -> Vec<BodySpec> {
    if tier == "thorough" {
        let extra: Vec<BodySpec> = v.iter().map(|b| BodySpec { body: Arc::new(AllLocks(b.body.clone())), bound: b.bound.min(2), secs: (b.secs / 2.0).max(20.0) }).collect();
        v.extend(extra);
    }
    v
}

/// Site prefixes a body is focused on (None = every hooked site is a scheduling point).
pub fn focus_of(name: &str) -> Option<Vec<&'static str>> {
    if name.contains("[focus:commit-path]") {
        Some(vec!["batch.", "write.", "worker.before_flush", "worker.before_compact", "flush.got_watermark", "rotate.sealed", "clear.", "ingest.", "meta."])
    } else if name.contains("[focus:write-path]") {
        Some(vec!["write.", "batch.", "journal.lock", "ingest.", "rotate.sealed", "worker.before_flush", "worker.got_msg"])
    } else {
        None
    }
}

/// Folds body reports into the outcome (E3 part of a check).
pub fn fold_e3(o: &mut Outcome, prop: &str, tier: &str, bodies: &[BodySpec], key_prefix: &str) {
    let nshards = crate::seqrun::threads().max(1);
    let mut recs = vec![];
    let mut total_sched = 0u64;
    let mut total_dec = 0u64;
    let mut all_outcomes = BTreeSet::new();
    for (i, b) in bodies.iter().enumerate() {
        let rep = explore_body_sharded(prop, tier, i, b.bound, b.secs, nshards);
        total_sched += rep.schedules;
        total_dec += rep.decisions;
        for oc in &rep.outcomes {
            all_outcomes.insert(format!("{}:{}", b.body.name(), oc));
        }
        recs.push(json!({
            "body": b.body.name(), "preemption_bound": b.bound, "schedules": rep.schedules, "decisions": rep.decisions,
            "bound_completed": !rep.capped, "preemption_bound_completed_exhaustively": rep.completed_bound, "distinct_outcomes": rep.outcomes.len(), "max_preemptions_in_a_schedule": rep.max_preemptions,
            "replay_checks": rep.replay_checks, "replay_divergences": rep.replay_divergences, "violating_schedules": rep.violations.len(),
        }));
        for t in rep.sample_traces.iter().take(1) {
            o.sample(json!({"body": b.body.name(), "schedule": t}));
        }
        if rep.replay_divergences > 0 {
            o.machinery_errors.push(format!("body {}: {} replay divergences", b.body.name(), rep.replay_divergences));
        }
        for m in rep.machinery.iter().take(3) {
            o.machinery_errors.push(format!("body {}: {m}", b.body.name()));
        }
        if rep.capped {
            o.cov("exhaustive", json!(false));
        }
        if rep.capped && rep.schedules < 20 {
            o.machinery_errors.push(format!("body {}: only {} schedules were executed", b.body.name(), rep.schedules));
        }
        // violations: fewest preemptions / shortest first
        let mut vs = rep.violations;
        vs.sort_by_key(|(_, _, ch, t)| (ch.iter().filter(|c| **c != 0).count(), t.len()));
        let mut seen = BTreeSet::new();
        for (clause, detail, choices, trace) in vs {
            let via = interleaved_sites(&trace);
            let sig = if via.is_empty() {
                format!("{clause}|body={}|via=", b.body.name().replace(' ', "_"))
            } else {
                format!("{clause}|via={via}")
            };
            if !seen.insert(sig.clone()) {
                continue;
            }
            o.findings.push(Finding {
                sig,
                engine: "E3-schedcheck".into(),
                variant: json!({"body_index": i, "body": b.body.name(), "choices": choices, "tier": tier}),
                program: trace,
                clause,
                detail,
            });
        }
    }
    o.cov(&format!("{key_prefix}bodies"), json!(recs));
    o.cov_add(&format!("{key_prefix}schedules"), total_sched);
    o.cov_add("states", total_sched);
    o.cov_add("transitions", total_dec.max(1));
    o.cov_add("traces_validated_against_impl", total_sched);
    let prev = o.coverage.get("distinct_outcomes").and_then(|v| v.as_u64()).unwrap_or(0);
    o.cov("distinct_outcomes", json!(prev + all_outcomes.len() as u64));
}

pub fn shard_main(args: &[String], bodies_of: &dyn Fn(&str, &str) -> Vec<BodySpec>) -> i32 {
    // <prop> <tier> <body index> <shard> <nshards> <bound> <secs> <out>
    if args.len() < 8 {
        return 2;
    }
    mark_uncontrolled();
    install_sched_hooks();
    let bodies = with_variants(bodies_of(&args[0], &args[1]), &args[1]);
    let bi: usize = args[2].parse().unwrap_or(0);
    let shard: usize = args[3].parse().unwrap_or(0);
    let n: usize = args[4].parse().unwrap_or(1);
    let bound: usize = args[5].parse().unwrap_or(1);
    let secs: f64 = args[6].parse().unwrap_or(10.0);
    let out = PathBuf::from(&args[7]);
    let Some(b) = bodies.get(bi) else {
        return 2;
    };
    *crate::sched::FOCUS.lock().unwrap() = focus_of(&b.body.name());
    crate::sched::ALL_LOCKS.store(b.body.name().contains("[all-locks]"), std::sync::atomic::Ordering::SeqCst);
    let rep = explore_body(&*b.body, bound, Instant::now() + Duration::from_secs_f64(secs), (shard, n));
    let _ = std::fs::write(&out, serde_json::to_string(&rep.to_json()).unwrap());
    crate::explore::cleanup_scratch();
    0
}

/// Replays one schedule (choice list) of a body in this process.
pub fn replay_schedule(body: &dyn Body, choices: &[usize]) -> i32 {
    mark_uncontrolled();
    install_sched_hooks();
    *crate::sched::FOCUS.lock().unwrap() = focus_of(&body.name());
    crate::sched::ALL_LOCKS.store(body.name().contains("[all-locks]"), std::sync::atomic::Ordering::SeqCst);
    let x = run_once(body, choices);
    for l in trace_str(&x.trace, &x.names) {
        println!("  {l}");
    }
    match x.result.verdict {
        Ok(o) => {
            println!("replay: schedule satisfied the oracle: {o}");
            0
        }
        Err(v) => {
            println!("replay: VIOLATION clause={} :: {}", v.clause, v.detail);
            1
        }
    }
}

/// Debug aid: runs one schedule and prints every decision (enabled set, whether switching would be a preemption).
pub fn debug_schedule(body: &dyn Body, choices: &[usize]) -> i32 {
    mark_uncontrolled();
    install_sched_hooks();
    *crate::sched::FOCUS.lock().unwrap() = focus_of(&body.name());
    crate::sched::ALL_LOCKS.store(body.name().contains("[all-locks]"), std::sync::atomic::Ordering::SeqCst);
    let x = run_once(body, choices);
    let mut free_branches = 0usize;
    for (i, d) in x.trace.iter().enumerate() {
        let (t, site) = d.resumed;
        if d.enabled.len() > 1 && !d.preemptible {
            free_branches += d.enabled.len() - 1;
        }
        println!("{i:4} T{t}:{}@{site} enabled={:?} preemptible={} chosen={}", x.names.get(t).map(String::as_str).unwrap_or("?"), d.enabled, d.preemptible, d.chosen);
    }
    println!("end={:?} decisions={} cost-0 alternatives={} verdict={:?}", x.end, x.trace.len(), free_branches, x.result.verdict.as_ref().map_err(|v| format!("{}: {}", v.clause, v.detail)));
    0
}
