//! E1: stateless, level-by-level exhaustive exploration of operation programs
//! on the real implementation. Every program is executed from an empty
//! directory; the enabled continuations are computed on the state it reaches.

use crate::world::Violation;
use std::collections::{BTreeMap, BTreeSet, HashSet};
use std::fmt::Display;
use std::path::PathBuf;
use std::sync::atomic::{AtomicBool, AtomicU64, AtomicUsize, Ordering};
use std::sync::Mutex;
use std::time::{Duration, Instant};

pub trait Property: Sync {
    type Op: Clone + Display + Send + Sync + Ord;
    type World;
    /// extra per-run statistics (witness counters)
    type Stats: Default + Send;

    fn id(&self) -> &'static str;
    /// fresh world in `dir` (already executes the fixed prefix, if any)
    fn init(&self, dir: PathBuf) -> Result<Self::World, Violation>;
    fn apply(&self, w: &mut Self::World, op: &Self::Op) -> Result<(), Violation>;
    /// full oracle on the final state; returns outcome digests
    fn check(&self, w: &mut Self::World) -> Result<Vec<u64>, Violation>;
    /// cheap invariant after every step
    fn step_check(&self, _w: &mut Self::World) -> Result<(), Violation> {
        Ok(())
    }
    /// enabled continuations in the reached state
    fn enabled(&self, w: &Self::World, len: usize) -> Vec<Self::Op>;
    fn absorb(&self, _w: &Self::World, _s: &mut Self::Stats) {}
    /// simpler variants of an operation the minimiser may try in its place (e.g. a worker step without the
    /// journal-rotation flag), so that a known defect keeps one signature however it was reached
    fn simplify(&self, _op: &Self::Op) -> Vec<Self::Op> {
        vec![]
    }
    /// canonical state hash (see canon.rs); `None` = this state is never merged with another
    fn canon(&self, _w: &Self::World) -> Option<u64> {
        None
    }
    /// kind of an op for signatures (first word by default)
    fn kind(&self, op: &Self::Op) -> String {
        op.to_string().split_whitespace().next().unwrap_or("").to_string()
    }
}

pub struct Found<O> {
    pub program: Vec<O>,
    pub v: Violation,
}

pub struct Report<P: Property> {
    pub programs: u64,
    pub transitions: u64,
    pub outcomes: HashSet<u64>,
    pub per_level: Vec<u64>,
    pub completed_depth: usize,
    /// programs per level whose continuations were not explored because an already expanded program reached the
    /// same canonical state (only at depths > `dedup_from`)
    pub merged_per_level: Vec<u64>,
    /// distinct canonical states seen
    pub canon_states: u64,
    /// wall time until the last plainly exhaustive level completed (zero if it did not)
    pub exhaustive_wall: Duration,
    pub capped: bool,
    pub violations: Vec<Found<P::Op>>,
    pub stats: P::Stats,
    pub samples: Vec<String>,
    pub wall: Duration,
}

thread_local! {
    static PANIC_MSG: std::cell::RefCell<Option<String>> = const { std::cell::RefCell::new(None) };
}

pub fn install_quiet_panic_hook() {
    if std::env::var("FJV_LOUD").is_ok() {
        return;
    }
    std::panic::set_hook(Box::new(|info| {
        let msg = if let Some(s) = info.payload().downcast_ref::<&str>() {
            (*s).to_string()
        } else if let Some(s) = info.payload().downcast_ref::<String>() {
            s.clone()
        } else {
            "panic".to_string()
        };
        let loc = info.location().map(|l| format!(" at {}:{}", l.file(), l.line())).unwrap_or_default();
        let _ = PANIC_MSG.try_with(|m| {
            if let Ok(mut g) = m.try_borrow_mut() {
                *g = Some(format!("{msg}{loc}"));
            }
        });
    }));
}

pub fn take_panic_msg() -> String {
    PANIC_MSG
        .try_with(|m| m.try_borrow_mut().ok().and_then(|mut g| g.take()))
        .ok()
        .flatten()
        .unwrap_or_else(|| "panic".into())
}

static DIR_COUNTER: AtomicU64 = AtomicU64::new(0);

pub fn scratch_root() -> PathBuf {
    let base = if std::path::Path::new("/dev/shm").is_dir() {
        PathBuf::from("/dev/shm")
    } else {
        std::env::temp_dir()
    };
    base.join(format!("fjall-verif.{}", std::process::id()))
}

pub fn fresh_dir() -> PathBuf {
    let n = DIR_COUNTER.fetch_add(1, Ordering::Relaxed);
    let root = scratch_root();
    let _ = std::fs::create_dir_all(&root);
    root.join(format!("w{n}"))
}

pub fn cleanup_scratch() {
    let _ = std::fs::remove_dir_all(scratch_root());
}

pub enum RunResult<O> {
    Ok { children: Vec<O>, digests: Vec<u64>, canon: Option<u64> },
    Bad(Violation),
}

/// Executes one program from scratch.
pub fn run_program<P: Property>(
    prop: &P,
    program: &[P::Op],
    max_len: usize,
    stats: Option<&mut P::Stats>,
) -> RunResult<P::Op> {
    let dir = fresh_dir();
    if let Ok(t) = std::env::var("FJV_TRACE_PROGRAMS") {
        let _ = std::fs::create_dir_all(&t);
        let _ = std::fs::write(
            std::path::Path::new(&t).join(format!("{:?}", std::thread::current().id())),
            format!("{}\n{}", dir.display(), prog_str(program)),
        );
    }
    let r = std::panic::catch_unwind(std::panic::AssertUnwindSafe(|| {
        let mut w = match prop.init(dir.clone()) {
            Ok(w) => w,
            Err(v) => return RunResult::Bad(v),
        };
        for op in program {
            if let Err(v) = prop.apply(&mut w, op) {
                return RunResult::Bad(v);
            }
            if let Err(v) = prop.step_check(&mut w) {
                return RunResult::Bad(v);
            }
        }
        // continuations are computed on the reached state, before the oracle runs (an oracle may drive the
        // database further, e.g. C10's quiescence clause)
        let children = if program.len() < max_len { prop.enabled(&w, program.len()) } else { vec![] };
        let canon = if program.len() < max_len { prop.canon(&w) } else { None };
        match prop.check(&mut w) {
            Ok(digests) => {
                if let Some(s) = stats {
                    prop.absorb(&w, s);
                }
                RunResult::Ok { children, digests, canon }
            }
            Err(v) => RunResult::Bad(v),
        }
    }));
    let _ = std::fs::remove_dir_all(&dir);
    match r {
        Ok(r) => r,
        Err(_) => RunResult::Bad(Violation::new("panic", take_panic_msg())),
    }
}

pub fn prog_str<O: Display>(p: &[O]) -> String {
    p.iter().map(|o| o.to_string()).collect::<Vec<_>>().join("; ")
}

pub fn explore<P: Property>(
    prop: &P,
    max_depth: usize,
    deadline: Instant,
    threads: usize,
    merge: &(dyn Fn(&mut P::Stats, P::Stats) + Sync),
) -> Report<P>
where
    P::Stats: Send,
{
    explore_dedup(prop, max_depth, max_depth, deadline, Duration::ZERO, threads, merge, 0)
}

/// `explore` with a required core: levels up to `min_depth` ignore the deadline.
pub fn explore_min<P: Property>(
    prop: &P,
    max_depth: usize,
    min_depth: usize,
    deadline: Instant,
    threads: usize,
    merge: &(dyn Fn(&mut P::Stats, P::Stats) + Sync),
) -> Report<P>
where
    P::Stats: Send,
{
    explore_dedup(prop, max_depth, max_depth, deadline, Duration::ZERO, threads, merge, min_depth)
}

/// Like `explore`, but at depths >= `dedup_from` a program is only extended if no program executed earlier (shorter,
/// or same length and smaller in program order) reached the same canonical state. Up to `dedup_from - 1` every
/// enabled program is extended (plain exhaustive enumeration); every executed program is judged by the oracle either
/// way.
pub fn explore_dedup<P: Property>(
    prop: &P,
    dedup_from: usize,
    max_depth: usize,
    deadline: Instant,
    // time allowed for the levels beyond `dedup_from`, counted from the moment level `dedup_from` completed
    ext_budget: Duration,
    threads: usize,
    merge: &(dyn Fn(&mut P::Stats, P::Stats) + Sync),
    // levels up to this depth are executed whatever the clock says (the check's required core)
    min_depth: usize,
) -> Report<P>
where
    P::Stats: Send,
{
    let start = Instant::now();
    let mut level: Vec<Vec<P::Op>> = vec![vec![]];
    let mut report = Report::<P> {
        programs: 0,
        transitions: 0,
        outcomes: HashSet::new(),
        per_level: vec![],
        completed_depth: 0,
        merged_per_level: vec![],
        canon_states: 0,
        exhaustive_wall: Duration::ZERO,
        capped: false,
        violations: vec![],
        stats: P::Stats::default(),
        samples: vec![],
        wall: Duration::ZERO,
    };
    let mut depth = 0usize;
    let mut seen: HashSet<u64> = HashSet::new();
    let mut deadline = deadline;
    loop {
        let next_idx = AtomicUsize::new(0);
        let timed_out = AtomicBool::new(false);
        // (index of the parent in `level`, its canonical state, its continuations)
        let out_next: Mutex<Vec<(usize, Option<u64>, Vec<P::Op>)>> = Mutex::new(vec![]);
        let out_viol: Mutex<Vec<Found<P::Op>>> = Mutex::new(vec![]);
        let out_digests: Mutex<HashSet<u64>> = Mutex::new(HashSet::new());
        let out_stats: Mutex<P::Stats> = Mutex::new(P::Stats::default());
        let done = AtomicU64::new(0);
        let level_ref = &level;
        std::thread::scope(|s| {
            for _ in 0..threads {
                s.spawn(|| {
                    let mut local_next = vec![];
                    let mut local_dig = HashSet::new();
                    let mut local_stats = P::Stats::default();
                    loop {
                        let i = next_idx.fetch_add(1, Ordering::Relaxed);
                        if i >= level_ref.len() {
                            break;
                        }
                        if depth > min_depth && i % 64 == 0 && Instant::now() >= deadline {
                            timed_out.store(true, Ordering::Relaxed);
                        }
                        if timed_out.load(Ordering::Relaxed) {
                            break;
                        }
                        let prog = &level_ref[i];
                        match run_program(prop, prog, max_depth, Some(&mut local_stats)) {
                            RunResult::Ok { children, digests, canon } => {
                                for d in digests {
                                    local_dig.insert(d);
                                }
                                local_next.push((i, canon, children));
                            }
                            RunResult::Bad(v) => {
                                out_viol.lock().unwrap().push(Found { program: prog.clone(), v });
                            }
                        }
                        done.fetch_add(1, Ordering::Relaxed);
                    }
                    out_next.lock().unwrap().append(&mut local_next);
                    out_digests.lock().unwrap().extend(local_dig);
                    merge(&mut out_stats.lock().unwrap(), local_stats);
                });
            }
        });
        let n = done.load(Ordering::Relaxed);
        report.programs += n;
        report.transitions += n * depth as u64;
        report.per_level.push(n);
        report.outcomes.extend(out_digests.into_inner().unwrap());
        report.violations.extend(out_viol.into_inner().unwrap());
        merge(&mut report.stats, out_stats.into_inner().unwrap());
        if timed_out.load(Ordering::Relaxed) {
            report.capped = true;
            break;
        }
        report.completed_depth = depth;
        if depth == dedup_from && max_depth > dedup_from {
            report.exhaustive_wall = start.elapsed();
            deadline = Instant::now() + ext_budget;
        }
        // expansion, in program order (deterministic choice of the representative of a canonical state)
        let mut results = out_next.into_inner().unwrap();
        results.sort_by_key(|r| r.0);
        let mut next: Vec<Vec<P::Op>> = vec![];
        let mut merged = 0u64;
        for (i, canon, children) in results {
            if let Some(c) = canon {
                let fresh = seen.insert(c);
                if !fresh && depth >= dedup_from {
                    merged += 1;
                    continue;
                }
            }
            for c in children {
                let mut p = level[i].clone();
                p.push(c);
                next.push(p);
            }
        }
        report.merged_per_level.push(merged);
        report.canon_states = seen.len() as u64;
        if depth >= max_depth || next.is_empty() {
            // keep a few samples of the deepest level
            for p in level.iter().rev().take(2) {
                report.samples.push(prog_str(p));
            }
            if let Some(p) = level.get(level.len() / 2) {
                report.samples.push(prog_str(p));
            }
            break;
        }
        next.sort();
        if let Some(p) = next.get(next.len() / 3) {
            if report.samples.len() < 6 {
                report.samples.push(prog_str(p));
            }
        }
        level = next;
        depth += 1;
    }
    report.wall = start.elapsed();
    report
}

/// Greedy minimisation: remove operations while a violation with the same clause persists.
pub fn minimise<P: Property>(prop: &P, found: &Found<P::Op>) -> Found<P::Op> {
    let mut prog = found.program.clone();
    let mut v = found.v.clone();
    let mut changed = true;
    while changed {
        changed = false;
        let mut i = 0;
        while i < prog.len() {
            let mut cand = prog.clone();
            cand.remove(i);
            match run_program(prop, &cand, 0, None) {
                RunResult::Bad(v2) if v2.clause == v.clause && v2.clause != "harness" => {
                    prog = cand;
                    v = v2;
                    changed = true;
                }
                _ => i += 1,
            }
        }
        // replace operations by simpler variants
        for i in 0..prog.len() {
            for alt in prop.simplify(&prog[i]) {
                let mut cand = prog.clone();
                cand[i] = alt;
                if let RunResult::Bad(v2) = run_program(prop, &cand, 0, None) {
                    if v2.clause == v.clause && v2.clause != "harness" {
                        prog = cand;
                        v = v2;
                        changed = true;
                        break;
                    }
                }
            }
        }
    }
    Found { program: prog, v }
}

/// Probe method named first in a diff detail ("keyspace x: get(a): got ..." -> "get").
pub fn detail_method(detail: &str) -> String {
    for tok in detail.split([' ', ':', ';']) {
        if let Some(p) = tok.find('(') {
            let m = &tok[..p];
            if !m.is_empty() && m.chars().all(|c| c.is_ascii_alphanumeric() || c == '_' || c == '.') {
                return m.to_string();
            }
        }
    }
    String::new()
}

/// "… at /path/to/file.rs:82" -> "file.rs:82"
pub fn panic_site(detail: &str) -> Option<String> {
    let at = detail.rfind(" at ")?;
    let loc = detail[at + 4..].split_whitespace().next()?;
    let base = loc.rsplit('/').next()?;
    if base.contains(".rs:") {
        Some(base.trim_end_matches(|c: char| !c.is_ascii_digit()).to_string())
    } else {
        None
    }
}

pub fn signature<P: Property>(prop: &P, f: &Found<P::Op>) -> String {
    if f.v.clause == "panic" || f.v.clause.ends_with(".panic") {
        if let Some(site) = panic_site(&f.v.detail) {
            // a panic is identified by where it is raised, not by the operations that led there
            return format!("{}@{site}", f.v.clause);
        }
    }
    let kinds: BTreeSet<String> = f.program.iter().map(|o| prop.kind(o)).collect();
    let m = detail_method(&f.v.detail);
    format!(
        "{}{}|ops={}",
        f.v.clause,
        if m.is_empty() { String::new() } else { format!("@{m}") },
        kinds.into_iter().collect::<Vec<_>>().join(",")
    )
}

/// Groups raw violations, minimises representatives, returns signature -> minimal case.
pub fn triage<P: Property>(prop: &P, mut raw: Vec<Found<P::Op>>) -> BTreeMap<String, Found<P::Op>> {
    raw.sort_by(|a, b| (a.program.len(), &a.program).cmp(&(b.program.len(), &b.program)));
    let mut buckets: BTreeMap<String, Vec<Found<P::Op>>> = BTreeMap::new();
    for f in raw {
        let key = signature(prop, &f);
        let b = buckets.entry(key).or_default();
        if b.len() < 12 {
            b.push(f);
        }
    }
    let mut out: BTreeMap<String, Found<P::Op>> = BTreeMap::new();
    for (_k, fs) in buckets {
        let mut distinct = 0;
        for f in fs {
            let m = minimise(prop, &f);
            let sig = signature(prop, &m);
            match out.get(&sig) {
                Some(prev) if prev.program.len() <= m.program.len() => {}
                _ => {
                    out.insert(sig, m);
                    distinct += 1;
                }
            }
            if distinct >= 3 {
                break;
            }
        }
    }
    out
}
