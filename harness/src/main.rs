mod canon;
mod core;
mod crash;
mod e3;
mod sched;
mod par;
mod explore;
mod props;
mod report;
mod seqprop;
mod seqrun;
mod shimrun;
mod world;

fn usage() -> ! {
    eprintln!("usage: fjv check <ID> <quick|thorough> | fjv replay <file>");
    std::process::exit(2)
}

fn main() {
    let args: Vec<String> = std::env::args().collect();
    if args.len() < 2 {
        usage();
    }
    explore::install_quiet_panic_hook();
    if std::env::var("FJV_LOUD").is_ok() {
        struct L;
        impl log::Log for L {
            fn enabled(&self, m: &log::Metadata) -> bool {
                m.level() <= log::Level::Warn
            }
            fn log(&self, r: &log::Record) {
                if self.enabled(r.metadata()) {
                    eprintln!("[{}] {}", r.level(), r.args());
                }
            }
            fn flush(&self) {}
        }
        static LOGGER: L = L;
        let _ = log::set_logger(&LOGGER);
        log::set_max_level(log::LevelFilter::Warn);
    }
    let code = match args[1].as_str() {
        "check" => {
            if args.len() < 4 {
                usage();
            }
            let tier = args[3].as_str();
            if tier != "quick" && tier != "thorough" {
                usage();
            }
            let r = match args[2].as_str() {
                "C01" => {
                    world::install_seq_hooks();
                    props::c01::run(tier)
                }
                "C04" => {
                    world::install_seq_hooks();
                    props::c04::run(tier)
                }
                "C03" => {
                    world::install_seq_hooks();
                    props::c03::run(tier)
                }
                "C15" => {
                    world::install_seq_hooks();
                    props::c15::run(tier)
                }
                "C02" => {
                    world::install_seq_hooks();
                    props::c02::run(tier)
                }
                "C09" => {
                    world::install_seq_hooks();
                    props::c09::run(tier)
                }
                "C13" => {
                    world::install_seq_hooks();
                    props::c13::run(tier)
                }
                "C14" => props::c14::run(tier),
                "C07" => {
                    world::install_seq_hooks();
                    props::c07::run(tier)
                }
                "C08" => {
                    world::install_seq_hooks();
                    props::c08::run(tier)
                }
                "C05" => {
                    world::install_seq_hooks();
                    props::c05::run(tier)
                }
                "C17" => {
                    world::install_seq_hooks_lazy();
                    props::c17::run(tier)
                }
                "C10" => {
                    world::install_seq_hooks();
                    props::c10::run(tier)
                }
                "C12" => {
                    world::install_seq_hooks();
                    props::c12::run(tier)
                }
                "C18" => {
                    world::install_seq_hooks();
                    props::c18::run(tier)
                }
                "C11" => {
                    world::install_seq_hooks();
                    props::c11::run(tier)
                }
                "C16" => {
                    world::install_seq_hooks();
                    props::c16::run(tier)
                }
                "C06" => props::c06::run(tier),
                other => {
                    eprintln!("unknown property {other}");
                    2
                }
            };
            explore::cleanup_scratch();
            r
        }
        "replay" => {
            if args.len() < 3 {
                usage();
            }
            let v = match report::read_replay(std::path::Path::new(&args[2])) {
                Ok(v) => v,
                Err(e) => {
                    eprintln!("cannot read replay: {e}");
                    std::process::exit(2)
                }
            };
            let r = match v["property"].as_str().unwrap_or("") {
                "C01" => {
                    if v["engine"] != "E3-schedcheck" {
                        world::install_seq_hooks();
                    }
                    props::c01::replay(&v)
                }
                "C04" => {
                    if v["engine"] != "E3-schedcheck" {
                        world::install_seq_hooks();
                    }
                    props::c04::replay(&v)
                }
                "C03" => {
                    world::install_seq_hooks();
                    props::c03::replay(&v)
                }
                "C15" => {
                    world::install_seq_hooks();
                    props::c15::replay(&v)
                }
                "C02" => {
                    world::install_seq_hooks();
                    props::c02::replay(&v)
                }
                "C09" => {
                    world::install_seq_hooks();
                    props::c09::replay(&v)
                }
                "C13" => {
                    world::install_seq_hooks();
                    props::c13::replay(&v)
                }
                "C14" => props::c14::replay(&v),
                "C07" => {
                    if v["engine"] != "E3-schedcheck" {
                        world::install_seq_hooks();
                    }
                    props::c07::replay(&v)
                }
                "C08" => {
                    if v["engine"] != "E3-schedcheck" {
                        world::install_seq_hooks();
                    }
                    props::c08::replay(&v)
                }
                "C05" => {
                    if v["engine"] != "E3-schedcheck" {
                        world::install_seq_hooks();
                    }
                    props::c05::replay(&v)
                }
                "C17" => props::c17::replay(&v),
                "C10" => {
                    if v["engine"] != "E3-schedcheck" {
                        world::install_seq_hooks();
                    }
                    props::c10::replay(&v)
                }
                "C12" => {
                    world::install_seq_hooks();
                    props::c12::replay(&v)
                }
                "C18" => {
                    world::install_seq_hooks();
                    props::c18::replay(&v)
                }
                "C11" => {
                    world::install_seq_hooks();
                    props::c11::replay(&v)
                }
                "C16" => {
                    world::install_seq_hooks();
                    props::c16::replay(&v)
                }
                "C06" => props::c06::replay(&v),
                other => {
                    eprintln!("unknown property {other}");
                    2
                }
            };
            explore::cleanup_scratch();
            r
        }
        "e3shard" => e3::shard_main(&args[2..], &e3_bodies_of),
        "e3dbg" => {
            // fjv e3dbg <prop> <tier> <body index> [choices,comma-separated]: prints every decision of one schedule
            let bodies = e3::with_variants(e3_bodies_of(&args[2], &args[3]), &args[3]);
            let bi: usize = args[4].parse().unwrap_or(0);
            let choices: Vec<usize> = args.get(5).map(|s| s.split(',').filter_map(|c| c.parse().ok()).collect()).unwrap_or_default();
            e3::debug_schedule(&*bodies[bi].body, &choices)
        }
        "drv" => {
            world::install_seq_hooks();
            shimrun::driver_main(&args[2..])
        }
        "dbg" => {
            world::install_seq_hooks();
            let cfg = world::Cfg::from_spec(&args[2]).expect("cfg");
            let mut w = world::World::new(explore::fresh_dir(), cfg).expect("world");
            w.track_journals = true;
            for a in &args[3..] {
                if a == "image" {
                    let img = explore::fresh_dir();
                    crash::copy_tree(&w.dir, &img).expect("copy");
                    let r = crash::recover_and_observe(&img, &w.cfg);
                    println!("image: {:?}", match r { crash::Recovered::Ok { content, .. } => crash::show_content(&content), o => format!("{o:?}") });
                    continue;
                }
                let op = world::Op::parse(a).expect("op");
                let r = w.apply(&op);
                println!("{op}: {:?} journals={:?} pending={:?} wit={:?}", r.map_err(|v| v.detail), world::journal_files(&w.dir), w.pending(), w.wit);
            }
            0
        }
        "dbgopen" => {
            world::install_seq_hooks();
            dbg_open(&args[2])
        }
        "recover-server" => {
            world::install_seq_hooks();
            crash::recover_server_main()
        }
        "bench" => {
            world::install_seq_hooks();
            bench();
            0
        }
        _ => usage(),
    };
    std::process::exit(code);
}

fn bench() {
    use crate::core::*;
    use crate::world::*;
    use std::time::Instant;
    let n = 300;
    let t = Instant::now();
    for _ in 0..n {
        let w = World::new(explore::fresh_dir(), Cfg::default2()).unwrap();
        drop(w);
    }
    println!("create+drop (2 ks): {:?}/iter", t.elapsed() / n);
    let t = Instant::now();
    for _ in 0..n {
        let w = World::new(explore::fresh_dir(), Cfg { nks: 1, ..Cfg::default2() }).unwrap();
        drop(w);
    }
    println!("create+drop (1 ks): {:?}/iter", t.elapsed() / n);
    let t = Instant::now();
    for _ in 0..n {
        let w = World::new(explore::fresh_dir(), Cfg { nks: 0, ..Cfg::default2() }).unwrap();
        drop(w);
    }
    println!("create+drop (0 ks): {:?}/iter", t.elapsed() / n);
    let t = Instant::now();
    for _ in 0..n {
        let d = explore::fresh_dir();
        let db = fjall::Database::builder(&d).worker_threads_unchecked(0).cache_size(1 << 20).open().unwrap();
        drop(db);
        let _ = std::fs::remove_dir_all(&d);
    }
    println!("raw create+drop, 1 MiB cache: {:?}/iter", t.elapsed() / n);
    let t = Instant::now();
    for _ in 0..n {
        let d = explore::fresh_dir();
        let db = fjall::Database::builder(&d).worker_threads_unchecked(0).open().unwrap();
        drop(db);
        let _ = std::fs::remove_dir_all(&d);
    }
    println!("raw create+drop, default cache: {:?}/iter", t.elapsed() / n);
    let mut w = World::new(explore::fresh_dir(), Cfg::default2()).unwrap();
    w.apply(&Op::parse("ins x.a=1").unwrap()).unwrap();
    w.apply(&Op::parse("ins x.b=2").unwrap()).unwrap();
    let t = Instant::now();
    for _ in 0..n {
        w.check_all(Probe::Full).unwrap();
    }
    println!("check_all Full (2 ks, memtable): {:?}/iter", t.elapsed() / n);
    let t = Instant::now();
    for _ in 0..n {
        w.check_all(Probe::Lite).unwrap();
    }
    println!("check_all Lite: {:?}/iter", t.elapsed() / n);
    w.apply(&Op::parse("rotate x").unwrap()).unwrap();
    let t = Instant::now();
    w.apply(&Op::parse("step WorkerMessage:Flush").unwrap()).unwrap();
    println!("flush step: {:?}", t.elapsed());
    let t = Instant::now();
    for _ in 0..n {
        w.check_all(Probe::Full).unwrap();
    }
    println!("check_all Full (table): {:?}/iter", t.elapsed() / n);
    let t = Instant::now();
    w.apply(&Op::Reopen).unwrap();
    println!("reopen: {:?}", t.elapsed());
    let t = Instant::now();
    w.apply(&Op::parse("major x").unwrap()).unwrap();
    println!("major: {:?}", t.elapsed());
}

#[allow(dead_code)]
pub fn dbg_open(dir: &str) -> i32 {
    let r = crash::recover_and_observe(std::path::Path::new(dir), &world::Cfg::default2());
    println!("{dir}: {:?}", match r { crash::Recovered::Ok { content, .. } => crash::show_content(&content), o => format!("{o:?}") });
    0
}

fn e3_bodies_of(prop: &str, tier: &str) -> Vec<e3::BodySpec> {
    match prop {
        "C14" => props::c14::bodies(tier),
        "C06" => props::c06::bodies(tier),
        "C10" => props::c10::bodies(tier),
        "C02" => props::c02::bodies(tier),
        "C03" => props::c03::bodies(tier),
        "C13" => props::c13::bodies(tier),
        "C16" => props::c16::bodies(tier),
        "C01" => props::c01::bodies(tier),
        "C04" => props::c04::bodies(tier),
        "C07" => props::c07::bodies(tier),
        "C08" => props::c08::bodies(tier),
        "C05" => props::c05e3::bodies(tier),
        "C17" => props::c17e3::bodies(tier),
        _ => vec![],
    }
}
