//! Tiny parallel-for over an index range with a deadline.
use std::sync::atomic::{AtomicBool, AtomicUsize, Ordering};
use std::time::Instant;

/// Runs `f(i)` for i in 0..n on `threads` threads; stops handing out indices after `deadline`.
/// Returns (number of indices processed, timed_out). Indices are handed out in ascending order, so
/// "processed" is a prefix up to in-flight jobs.
pub fn par_for<F: Fn(usize) + Sync>(n: usize, threads: usize, deadline: Instant, f: F) -> (usize, bool) {
    par_for_core(n, 0, threads, deadline, f)
}

/// Like `par_for`, but the first `required` indices (the check's required core) are executed whatever the clock says:
/// a slow machine makes the run longer, it never turns the core into a machinery error.
pub fn par_for_core<F: Fn(usize) + Sync>(n: usize, required: usize, threads: usize, deadline: Instant, f: F) -> (usize, bool) {
    let next = AtomicUsize::new(0);
    let done = AtomicUsize::new(0);
    let timed_out = AtomicBool::new(false);
    std::thread::scope(|s| {
        for _ in 0..threads.max(1) {
            s.spawn(|| loop {
                let i = next.fetch_add(1, Ordering::Relaxed);
                if i >= n {
                    break;
                }
                if i >= required {
                    if i % 16 == 0 && Instant::now() >= deadline {
                        timed_out.store(true, Ordering::Relaxed);
                    }
                    if timed_out.load(Ordering::Relaxed) {
                        break;
                    }
                }
                f(i);
                done.fetch_add(1, Ordering::Relaxed);
            });
        }
    });
    (done.load(Ordering::Relaxed), timed_out.load(Ordering::Relaxed))
}
