//! C01 — ordered-map equivalence under background maintenance (E1).

use crate::core::Probe;
use crate::report::*;
use crate::seqprop::*;
use crate::seqrun::*;
use crate::world::*;
use serde_json::json;
use std::time::{Duration, Instant};

fn mk(name: &str, cfg: Cfg, alpha: Alpha, pfx: &str, depth: usize, min_depth: usize, secs: f64, probe: Probe) -> Pass {
    let mut prop = SeqProp::new("C01", cfg, alpha);
    prop.prefix = prefix(pfx);
    prop.probe = probe;
    prop.resync_after_prefix = pfx == "reopened_with_data";
    Pass { name: name.to_string(), prop, depth, min_depth, budget: Duration::from_secs_f64(secs), dedup_extra: 0, dedup_budget: Duration::ZERO }
}

pub fn passes(tier: &str) -> Vec<Pass> {
    let d = Cfg::default2();
    let blob = Cfg { blob: true, ..d.clone() };
    let tiny = Cfg { tiny: true, ..d.clone() };
    let l2 = Cfg { strat: Strat::LeveledL2, ..d.clone() };
    let fifo = Cfg { strat: Strat::Fifo, ..d.clone() };
    let nocomp = Cfg { lz4: false, ..d.clone() };
    let q = tier == "quick";
    let mut v = vec![
        mk("wide/default", d.clone(), Alpha::wide(), "", if q { 3 } else { 4 }, if q { 2 } else { 3 }, if q { 6.0 } else { 150.0 }, Probe::Full),
        mk("narrow/default", d.clone(), Alpha::narrow(false), "", if q { 5 } else { 7 }, if q { 4 } else { 5 }, if q { 8.0 } else { 150.0 }, Probe::Lite),
        mk("narrow/from-last-level", d.clone(), Alpha::narrow(false), "a_in_last_level", if q { 4 } else { 6 }, 3, if q { 5.0 } else { 120.0 }, Probe::Lite),
        mk("two-keys/tomb-over-value", d.clone(), Alpha::two_keys(), "tomb_over_value", if q { 4 } else { 6 }, 3, if q { 4.0 } else { 90.0 }, Probe::Full),
        mk("narrow-big/blob", blob.clone(), Alpha::narrow(true), "", if q { 4 } else { 6 }, 3, if q { 5.0 } else { 120.0 }, Probe::Lite),
        mk("narrow-big/blob-overwritten", blob.clone(), Alpha::narrow(true), "blob_overwritten", if q { 3 } else { 5 }, 2, if q { 4.0 } else { 90.0 }, Probe::Lite),
        mk("narrow/leveled-l0=2", l2.clone(), Alpha::narrow(false), "", if q { 4 } else { 7 }, 3, if q { 4.0 } else { 150.0 }, Probe::Lite),
    ];
    {
        // journal rotation with the journaling limit at its minimum: straggler keyspaces are asked to rotate (RotateMemtable
        // messages carrying a memtable id) while writes continue
        let mut a = Alpha::empty();
        a.ins = vec![(0, 0, 0), (0, 0, 1), (1, 0, 0)];
        a.rem = vec![(0, 0)];
        a.rotate = vec![0, 1];
        a.major = vec![0];
        a.jrot = true;
        v.push(mk("2ks/small-journal-limit", Cfg { maxj: true, ..d.clone() }, a, "", if q { 4 } else { 6 }, 3, if q { 4.0 } else { 120.0 }, Probe::Lite));
    }
    v.push(mk("wide/on-a-recovered-database", d.clone(), Alpha::wide(), "reopened_with_data", if q { 2 } else { 4 }, 2, if q { 3.0 } else { 120.0 }, Probe::Full));
    v.push(mk("narrow/on-a-recovered-database", d.clone(), Alpha::narrow(false), "reopened_with_data", if q { 4 } else { 6 }, 3, if q { 3.0 } else { 120.0 }, Probe::Lite));
    v.push(mk("narrow/fifo", fifo.clone(), Alpha::narrow(false), "", if q { 3 } else { 6 }, 3, if q { 2.0 } else { 90.0 }, Probe::Lite));
    if !q {
        v.push(mk("wide/l6_l0_mem", d.clone(), Alpha::wide(), "l6_l0_mem", 3, 2, 80.0, Probe::Full));
        v.push(mk("narrow/tiny-memtable", tiny, Alpha::narrow(false), "", 6, 4, 90.0, Probe::Lite));
        v.push(mk("narrow-big/no-journal-compression", nocomp, Alpha::narrow(true), "", 5, 4, 60.0, Probe::Lite));
        v.push(mk("two-keys/leveled-l0=2", l2, Alpha::two_keys(), "", 6, 4, 80.0, Probe::Full));
        v.push(mk("wide/blob", blob, Alpha::wide(), "", 3, 2, 60.0, Probe::Full));
    }
    v
}

pub fn bodies(tier: &str) -> Vec<crate::e3::BodySpec> {
    use crate::props::c06::{Act, Finals, Kind, VisBody};
    use std::sync::Arc;
    let q = tier == "quick";
    vec![crate::e3::BodySpec {
        body: Arc::new(VisBody { name: "ingest(a,b) || insert a || reader: point reads agree with scans", kind: Kind::Plain, workers: 0, keyspaces: vec!["x"], initial: vec![("x", "ab", "0")], prerotate: vec![], threads: vec![vec![Act::Ingest("x", vec![("a", "ingested"), ("b", "ingested")])], vec![Act::Ins(("x", "a", "written"))]], finals: Finals::PointVsScan }),
        bound: 2,
        secs: if q { 4.0 } else { 120.0 },
    }, crate::e3::BodySpec {
        body: Arc::new(VisBody { name: "batch(a) || insert a || rotate: point reads agree with scans [focus:write-path]", kind: Kind::Plain, workers: 0, keyspaces: vec!["x"], initial: vec![("x", "ab", "0")], prerotate: vec![], threads: vec![vec![Act::Batch(vec![("x", "a", "batch")])], vec![Act::Ins(("x", "a", "insert"))], vec![Act::Rotate("x")]], finals: Finals::PointVsScan }),
        bound: 2,
        secs: if q { 5.0 } else { 120.0 },
    }]
}

pub fn run(tier: &str) -> i32 {
    let t0 = Instant::now();
    let mut o = Outcome::new("C01", tier, "model_checking");
    let ps = with_dedup(passes(tier), tier);
    let wit = run_passes(&mut o, &ps);
    o.cov("rule", json!("every enabled operation program up to the per-pass depth is executed on the real database (no worker threads; queued worker messages are stepped explicitly in every order); after each program all read methods over the probe set are compared with a BTreeMap model; states = programs executed (nodes of the execution tree), no state merging"));
    o.assumptions = vec![
        "key universe {a,ab,b}, values {1,2,'',5000-byte block}; keys/values near the documented limits are not enumerated".into(),
        "maintenance runs only through the real worker_tick on the caller's thread (verif_step); concurrent execution is C14's".into(),
        "FIFO only with a limit that never evicts (as the property states)".into(),
    ];
    // reachability witnesses: the situations this check exists to cover
    if wit.flushed == 0 || wit.compacted == 0 || wit.shadow == 0 || wit.l1_tables == 0 {
        o.machinery_errors.push(format!("reachability witness missing: {:?}", wit));
    }
    if wit.blob_files == 0 {
        o.machinery_errors.push("reachability witness missing: no state with blob files".into());
    }
    crate::e3::fold_e3(&mut o, "C01", tier, &crate::e3::with_variants(bodies(tier), tier), "e3_");
    o.wall_s = t0.elapsed().as_secs_f64();
    finish(o)
}

pub fn replay(v: &serde_json::Value) -> i32 {
    if v["engine"] == "E3-schedcheck" {
        let tier = v["variant"]["tier"].as_str().unwrap_or("quick");
        let bi = v["variant"]["body_index"].as_u64().unwrap_or(0) as usize;
        let choices: Vec<usize> = v["variant"]["choices"].as_array().map(|a| a.iter().filter_map(|c| c.as_u64().map(|c| c as usize)).collect()).unwrap_or_default();
        return match crate::e3::with_variants(bodies(tier), tier).get(bi) {
            Some(b) => crate::e3::replay_schedule(&*b.body, &choices),
            None => 2,
        };
    }
    let name = v["variant"]["pass"].as_str().unwrap_or("");
    let plen = v["variant"]["prefix_len"].as_u64().unwrap_or(0) as usize;
    let program: Vec<String> = v["program"].as_array().map(|a| a.iter().filter_map(|s| s.as_str().map(String::from)).collect()).unwrap_or_default();
    for tier in ["quick", "thorough"] {
        if let Some(p) = passes(tier).into_iter().find(|p| p.name == name) {
            return replay_with(&p, &program, plen);
        }
    }
    eprintln!("unknown pass {name}");
    2
}
