//! C02 — acknowledged writes survive a process crash, in commit order (E2: crash before every file-mutating
//! libc call, torn writes).

use crate::core::*;
use crate::crash::*;
use crate::explore::{fresh_dir, run_program, RunResult};
use crate::par::par_for;
use crate::report::*;
use crate::seqprop::*;
use crate::seqrun::threads;
use crate::shimrun::*;
use crate::world::*;
use serde_json::json;
use std::collections::{BTreeMap, BTreeSet};
use std::sync::Mutex;
use std::time::{Duration, Instant};

pub fn content_to_model(c: &Content) -> BTreeMap<u8, Map> {
    c.iter()
        .filter_map(|(k, v)| KS_NAMES.iter().position(|n| n == k).map(|i| (i as u8, v.clone())))
        .collect()
}

/// After recovery: the database must be fully usable — overwrite every key, remove one, reopen (C02 suffix; C11 clauses).
pub fn suffix_check(dir: &std::path::Path, cfg: &Cfg, state: &Content) -> Result<(), (String, String)> {
    let r = std::panic::catch_unwind(std::panic::AssertUnwindSafe(|| -> Result<(), (String, String)> {
        let mut w = World::open_existing(dir.to_path_buf(), cfg.clone(), content_to_model(state))
            .map_err(|v| ("suffix.open".to_string(), v.detail))?;
        w.keep_dir = true;
        let ks: Vec<u8> = w.model.keys().copied().collect();
        let mut ops = vec![];
        for k in &ks {
            ops.push(Op::Ins { ks: *k, k: 0, v: 1 });
            ops.push(Op::Ins { ks: *k, k: 1, v: 0 });
            ops.push(Op::Rem { ks: *k, k: 2 });
        }
        for op in &ops {
            w.apply(op).map_err(|v| ("suffix.op_error".to_string(), format!("{op}: {}", v.detail)))?;
        }
        w.check_all(Probe::Lite).map_err(|v| ("suffix.supersede".to_string(), v.detail))?;
        w.apply(&Op::Reopen).map_err(|v| ("suffix.reopen".to_string(), v.detail))?;
        w.check_all(Probe::Lite).map_err(|v| ("suffix.after_reopen".to_string(), v.detail))?;
        Ok(())
    }));
    match r {
        Ok(r) => r,
        Err(_) => Err(("suffix.panic".into(), crate::explore::take_panic_msg())),
    }
}

fn alpha(tier: &str) -> Alpha {
    let mut a = Alpha::empty();
    a.ins = vec![(0, 0, 0)];
    a.rem = vec![(0, 0)];
    a.batches = vec![vec![Item { ks: 0, k: 0, v: Some(1) }, Item { ks: 1, k: 0, v: Some(0) }]];
    a.clear = vec![0];
    a.rotate = vec![0];
    a.jrot = true;
    a.reopen = true;
    a.max_reopen = 1;
    a.create = vec![2];
    if tier != "quick" {
        a.ins.push((1, 1, 3));
        a.major = vec![0];
        a.delete = vec![1];
    }
    a
}

pub struct Plan {
    /// fixed programs instead of the enumeration (depth/alpha unused then)
    pub fixed: Option<Vec<Vec<&'static str>>>,
    pub name: &'static str,
    pub cfg: Cfg,
    pub prefix: &'static str,
    pub alpha: Alpha,
    pub depth: usize,
}

/// Canonical multi-keyspace sequences that blind enumeration only reaches at depths the quick tier cannot afford.
pub fn canonical_programs() -> Vec<Vec<&'static str>> {
    vec![
        // cross-keyspace batch, only the first item's keyspace is flushed
        vec!["batch [x.a=2 y.a=1]", "rotate x", "step WorkerMessage:Flush", "ins x.ab=1"],
        // ... only the second item's keyspace is flushed
        vec!["batch [x.a=2 y.a=1]", "rotate y", "step WorkerMessage:Flush", "batch [x.a=1 y.a=2]"],
        // one keyspace flushed once, the other rotates later (crash between rotation and flush)
        vec!["ins x.a=1", "rotate x", "step WorkerMessage:Flush", "ins y.a=1", "rotate y", "step WorkerMessage:Flush"],
        // journal rotation with a lagging keyspace, then the lagging one is flushed (journal eviction)
        vec!["ins y.a=1", "ins x.a=1", "rotate x", "step+jrot WorkerMessage:Flush", "rotate y", "step WorkerMessage:Flush", "ins x.a=2"],
        // a sealed journal (kept back by y) whose batches carry several items for the unflushed keyspace
        vec!["batch [y.a=1 y.b=2 x.a=1]", "batch [y.ab=1 y.a=2]", "rotate x", "step+jrot WorkerMessage:Flush", "ins x.b=1"],
        // a sealed journal in which x has a flushed record and a later unflushed one
        vec!["ins x.b=1", "rotate x", "step WorkerMessage:Flush", "batch [x.a=1 x.ab=2 y.a=1]", "rotate y", "step+jrot WorkerMessage:Flush", "ins y.b=1"],
        // overwrite after flush, compaction, clear
        vec!["ins x.a=1", "rotate x", "step WorkerMessage:Flush", "ins x.a=2", "rotate x", "step WorkerMessage:Flush", "step WorkerMessage:Compact(\"x\")", "clear x", "ins x.b=1"],
    ]
}

fn plans(tier: &str) -> Vec<Plan> {
    let d = Cfg::default2();
    let q = tier == "quick";
    let mut tx_alpha = Alpha::empty();
    tx_alpha.txs = vec![vec![Item { ks: 0, k: 0, v: Some(0) }, Item { ks: 1, k: 0, v: Some(1) }], vec![Item { ks: 0, k: 0, v: None }, Item { ks: 1, k: 1, v: Some(0) }]];
    tx_alpha.rotate = vec![0];
    tx_alpha.reopen = true;
    tx_alpha.max_reopen = 1;
    let mut v = vec![
        Plan { fixed: Some(canonical_programs()), name: "canonical", cfg: d.clone(), prefix: "", alpha: Alpha::empty(), depth: 0 },
        Plan { fixed: None, name: "main", cfg: d.clone(), prefix: "", alpha: alpha(tier), depth: if q { 3 } else { 4 } },
        Plan { fixed: None, name: "two-sealed-journals", cfg: d.clone(), prefix: "two_sealed_journals", alpha: alpha(tier), depth: if q { 1 } else { 2 } },
        Plan { fixed: None, name: "sealed-journal-all-record-kinds", cfg: d.clone(), prefix: "sealed_journal_all_kinds", alpha: alpha(tier), depth: if q { 1 } else { 2 } },
        Plan { fixed: None, name: "tx-single-writer", cfg: Cfg { kind: DbKind::SingleWriter, ..d.clone() }, prefix: "", alpha: tx_alpha.clone(), depth: if q { 2 } else { 3 } },
        Plan { fixed: None, name: "tx-optimistic", cfg: Cfg { kind: DbKind::Optimistic, ..d.clone() }, prefix: "", alpha: tx_alpha.clone(), depth: if q { 2 } else { 3 } },
    ];
    if !q {
        v.push(Plan { fixed: None, name: "compaction-pending", cfg: Cfg { strat: Strat::LeveledL2, ..d.clone() }, prefix: "l6_l0_mem", alpha: alpha(tier), depth: 2 });
        v.push(Plan { fixed: None, name: "blob", cfg: Cfg { blob: true, ..d.clone() }, prefix: "blob_overwritten", alpha: alpha(tier), depth: 2 });
    }
    v
}

/// All maximal programs (leaves) up to `depth` after `prefix` — enumerated on the real code without the shim.
pub fn leaves(prop: &SeqProp, depth: usize) -> Vec<Vec<Op>> {
    let mut out = vec![];
    let mut stack: Vec<Vec<Op>> = vec![vec![]];
    while let Some(p) = stack.pop() {
        match run_program(prop, &p, depth, None) {
            RunResult::Ok { children, .. } => {
                if children.is_empty() {
                    out.push(p);
                } else {
                    for c in children.into_iter().rev() {
                        let mut q = p.clone();
                        q.push(c);
                        stack.push(q);
                    }
                }
            }
            RunResult::Bad(_) => out.push(p), // still crash-test it; E1 checks report the sequential problem
        }
    }
    out.sort();
    out
}

#[derive(Clone, Copy, PartialEq, Debug)]
pub enum CrashMode {
    /// process crash: the OS view of the files survives
    Crash,
    /// power loss: only data synced with fsync/fdatasync survives (directory operations are kept)
    PowerLoss,
}

/// power-loss images whose content is no exact prefix state although every synced write survived (counted, not judged)
pub static NON_PREFIX_POWERLOSS: std::sync::atomic::AtomicU64 = std::sync::atomic::AtomicU64::new(0);

pub struct CrashStats {
    pub programs: u64,
    pub images: u64,
    pub torn: u64,
    pub pre_open_images: u64,
    pub kill_checks: u64,
    pub kill_mismatch: u64,
    pub inflight_old: u64,
    pub inflight_new: u64,
    pub events: u64,
}

/// Crash exploration of the plans' programs; folds counts into `o` under `key_prefix` and appends findings.
pub fn crash_explore(o: &mut Outcome, plans: &[Plan], deadline: Instant, q: bool, conformance_programs: usize, key_prefix: &str) {
    crash_explore_mode(o, plans, deadline, q, conformance_programs, key_prefix, CrashMode::Crash)
}

pub fn crash_explore_mode(o: &mut Outcome, plans: &[Plan], deadline: Instant, q: bool, conformance_programs: usize, key_prefix: &str, mode: CrashMode) {
    let mut required_jobs: Vec<(usize, Vec<Op>)> = vec![];
    let mut optional_jobs: Vec<(usize, Vec<Op>)> = vec![];
    let mut props = vec![];
    for (pi, pl) in plans.iter().enumerate() {
        let mut prop = SeqProp::new("C02", pl.cfg.clone(), pl.alpha.clone());
        prop.c12_ops = false;
        prop.prefix = prefix(pl.prefix);
        match &pl.fixed {
            Some(f) => {
                for p in f {
                    required_jobs.push((pi, p.iter().map(|s| Op::parse(s).expect("fixed op")).collect()));
                }
            }
            None => {
                // required core: the maximal programs one level shallower; extension: the full depth
                if pl.depth >= 2 {
                    for l in leaves(&prop, pl.depth - 1) {
                        required_jobs.push((pi, l));
                    }
                    for l in leaves(&prop, pl.depth) {
                        optional_jobs.push((pi, l));
                    }
                } else {
                    for l in leaves(&prop, pl.depth) {
                        required_jobs.push((pi, l));
                    }
                }
            }
        }
        props.push(prop);
    }
    let required = required_jobs.len();
    let mut jobs = required_jobs;
    jobs.extend(optional_jobs);
    let findings: Mutex<Vec<Finding>> = Mutex::new(vec![]);
    let stats = Mutex::new(CrashStats { programs: 0, images: 0, torn: 0, pre_open_images: 0, kill_checks: 0, kill_mismatch: 0, inflight_old: 0, inflight_new: 0, events: 0 });
    let outcomes: Mutex<BTreeSet<u64>> = Mutex::new(BTreeSet::new());
    let samples: Mutex<Vec<serde_json::Value>> = Mutex::new(vec![]);

    let (done, timed_out) = crate::par::par_for_core(jobs.len(), required, threads(), deadline, |ji| {
        let (pi, prog) = &jobs[ji];
        let pl = &plans[*pi];
        let mut full: Vec<Op> = prefix(pl.prefix);
        let plen = full.len();
        full.extend(prog.iter().cloned());
        // model states after each op (in-process, no shim)
        let hist = {
            let dir = fresh_dir();
            match record(dir, pl.cfg.clone(), &full) {
                Ok((w, h)) => {
                    drop(w);
                    h
                }
                Err(_) => return, // sequential failure: E1's business
            }
        };
        let run = run_driver(&pl.cfg, &full, Mode::Image { powerloss: mode == CrashMode::PowerLoss }, &[]);
        // lower bound of the recovered prefix for a crash before call n
        let lower = |n: usize| -> usize {
            let fences = if mode == CrashMode::PowerLoss { &hist.sync_fence } else { &hist.buffer_fence };
            let mut lo = 0;
            for (i, c, ok) in &run.acks {
                if *ok && *c <= n && fences.get(*i).copied().unwrap_or(false) {
                    lo = lo.max(i + 1);
                }
            }
            if let Some(d) = run.dropped_counter {
                if d <= n {
                    lo = full.len();
                }
            }
            lo
        };
        if run.exit_code != Some(0) || run.acks.len() != full.len() {
            findings.lock().unwrap().push(Finding {
                sig: "driver.failed".into(),
                engine: "E2-crashcheck".into(),
                variant: json!({"plan": pl.name}),
                program: full.iter().map(|o| o.to_string()).collect(),
                clause: "driver.failed".into(),
                detail: format!("driver exit {:?}, acks {}/{}: {}", run.exit_code, run.acks.len(), full.len(), run.stdout.chars().take(300).collect::<String>()),
            });
            return;
        }
        let mut st_images = 0;
        let mut st_torn = 0;
        let mut st_pre = 0;
        let mut old = 0;
        let mut new = 0;
        let mut local_out = BTreeSet::new();
        let mut seen_img = BTreeSet::new();
        let mut seen_hash = BTreeSet::new();
        let report = |clause: String, detail: String, n: usize, call: &str, torn: Option<u64>| {
            let acked = run.acked_before(n);
            let inflight = full.get(acked).map(|o| o.to_string().split_whitespace().next().unwrap_or("").to_string()).unwrap_or_else(|| "drop".into());
            findings.lock().unwrap().push(Finding {
                sig: format!("{clause}|inflight={inflight}|at={call}{}{}", if torn.is_some() { "+torn" } else { "" }, if mode == CrashMode::PowerLoss { "|powerloss" } else { "" }),
                engine: "E2-crashcheck".into(),
                variant: json!({"plan": pl.name, "cfg": pl.cfg.to_spec(), "crash_before_call": n, "call": call, "torn_bytes": torn, "prefix_len": plen, "acked_ops": acked, "mode": format!("{mode:?}"), "must_survive_ops": lower(n)}),
                program: full.iter().map(|o| o.to_string()).collect(),
                clause,
                detail,
            });
        };
        let check_image = |imgdir: &std::path::Path, n: usize, call: &str, torn: Option<u64>, local_out: &mut BTreeSet<u64>, old: &mut u64, new: &mut u64| {
            let acked = run.acked_before(n);
            let dir = fresh_dir();
            if copy_tree(imgdir, &dir).is_err() {
                let _ = std::fs::remove_dir_all(&dir);
                return;
            }
            match recover_and_observe(&dir, &pl.cfg) {
                Recovered::Ok { content, inconsistent } => {
                    if let Some(d) = inconsistent {
                        report("recovered.inconsistent_reads".into(), d, n, call, torn);
                    } else {
                        let lo = lower(n).min(acked);
                        // C09 (power loss) promises survival of what was synced, not atomicity of what was not:
                        // per key, the recovered value must be the one after SOME prefix p with lo <= p <= acked+1
                        let per_key_ok = mode == CrashMode::PowerLoss && {
                            let hi = (acked + 1).min(hist.states.len() - 1);
                            let mut ok = true;
                            // keyspace set: must be the set of some state in range
                            ok &= (lo..=hi).any(|p| hist.states[p].keys().eq(content.keys()));
                            let mut all_keys: BTreeSet<(String, Vec<u8>)> = BTreeSet::new();
                            for p in lo..=hi {
                                for (ks, m) in &hist.states[p] {
                                    for k in m.keys() {
                                        all_keys.insert((ks.clone(), k.clone()));
                                    }
                                }
                            }
                            for (ks, m) in &content {
                                for k in m.keys() {
                                    all_keys.insert((ks.clone(), k.clone()));
                                }
                            }
                            for (ks, k) in all_keys {
                                let got = content.get(&ks).and_then(|m| m.get(&k));
                                if !(lo..=hi).any(|p| hist.states[p].get(&ks).and_then(|m| m.get(&k)) == got) {
                                    ok = false;
                                }
                            }
                            ok
                        };
                        let exact = matching_prefix(&hist, &content, lo, acked + 1);
                        let verdict = if exact.is_some() { exact } else if per_key_ok { Some(lo) } else { None };
                        if exact.is_none() && per_key_ok {
                            NON_PREFIX_POWERLOSS.fetch_add(1, std::sync::atomic::Ordering::Relaxed);
                        }
                        match verdict {
                            Some(p) => {
                                if p <= acked { *old += 1 } else { *new += 1 }
                                use std::hash::{Hash, Hasher};
                                let mut h = std::collections::hash_map::DefaultHasher::new();
                                show_content(&content).hash(&mut h);
                                local_out.insert(h.finish());
                                if exact.is_some() {
                                    if let Err((c, d)) = suffix_check(&dir, &pl.cfg, &content) {
                                        report(c, d, n, call, torn);
                                    }
                                }
                            }
                            None => {
                                let any = matching_prefix(&hist, &content, 0, hist.states.len() - 1);
                                let clause = match any {
                                    Some(p) if p < lo => if mode == CrashMode::PowerLoss { "recovered.synced_write_missing" } else { "recovered.acknowledged_write_missing" },
                                    Some(_) => "recovered.future_state",
                                    None => "recovered.not_a_prefix",
                                };
                                report(
                                    clause.into(),
                                    format!("{} ops acknowledged, the first {} must survive; expected a state between {} and {} ; recovered {}", acked, lo, show_content(&hist.states[lo]), hist.states.get(acked + 1).map(show_content).unwrap_or_else(|| show_content(&hist.states[acked])), show_content(&content)),
                                    n, call, torn,
                                );
                            }
                        }
                    }
                }
                Recovered::OpenErr(e) => report("recover.open_error".into(), e, n, call, torn),
                Recovered::Panic(e) => report("recover.panic".into(), e, n, call, torn),
            }
            let _ = std::fs::remove_dir_all(&dir);
        };
        for (ei, ev) in run.events.iter().enumerate() {
            if ev.n < run.init_counter {
                st_pre += 1;
                continue;
            }
            if mode == CrashMode::PowerLoss {
                if ev.pl >= 0 && seen_img.insert(ev.pl) && seen_hash.insert((tree_hash(&run.pl_dir(ev.pl)), run.acked_before(ev.n) * 1000 + lower(ev.n))) {
                    st_images += 1;
                    check_image(&run.pl_dir(ev.pl), ev.n, &ev.call, None, &mut local_out, &mut old, &mut new);
                }
                continue;
            }
            if ev.img >= 0 && seen_img.insert(ev.img) && seen_hash.insert((tree_hash(&run.image_dir(ev.img)), run.acked_before(ev.n) * 1000 + lower(ev.n))) {
                st_images += 1;
                check_image(&run.image_dir(ev.img), ev.n, &ev.call, None, &mut local_out, &mut old, &mut new);
            }
            // torn writes: every split of journal writes, the middle split of other writes
            if (ev.call == "write" || ev.call == "pwrite" || ev.call == "writev") && ev.len > 1 {
                let after = run.events.get(ei + 1).map(|e| e.img).unwrap_or(-1);
                if after > ev.img {
                    // every byte split of journal appends is C03's job (zero-padded cuts); here: marker edges + middle + ends
                    let ks: Vec<u64> = if ev.path.ends_with(".jnl") {
                        let mut v = vec![1, 13.min(ev.len - 1), ev.len / 2, ev.len - 13.min(ev.len - 1), ev.len - 1];
                        if !q { v.extend((1..ev.len.min(64)).step_by(3)); }
                        v.sort();
                        v.dedup();
                        v.retain(|k| *k >= 1 && *k < ev.len);
                        v
                    } else { vec![ev.len / 2] };
                    for k in ks {
                        let dir = fresh_dir();
                        if torn_image(&run, ev, after, k, &dir).is_ok() {
                            st_torn += 1;
                            check_image(&dir, ev.n, &ev.call, Some(k), &mut local_out, &mut old, &mut new);
                        }
                        let _ = std::fs::remove_dir_all(&dir);
                    }
                }
            }
        }
        // conformance of the image mechanism: a real kill before call n must leave the same tree
        let mut kc = 0;
        let mut km = 0;
        if ji < conformance_programs && mode == CrashMode::Crash {
            let step = if q { 3 } else { 1 };
            for ev in run.events.iter().filter(|e| e.n >= run.init_counter && e.n % step == 0) {
                let killed = run_driver(&pl.cfg, &full, Mode::Crash(ev.n), &[]);
                kc += 1;
                let mut bad = killed.exit_code != Some(137) || tree_hash_across_runs(&killed.root) != tree_hash_across_runs(&run.image_dir(ev.img));
                if !bad {
                    // logical equivalence too: both recover to the same content
                    let d2 = fresh_dir();
                    let _ = copy_tree(&run.image_dir(ev.img), &d2);
                    let a = recover_and_observe(&killed.root, &pl.cfg);
                    let b = recover_and_observe(&d2, &pl.cfg);
                    let _ = std::fs::remove_dir_all(&d2);
                    bad = match (a, b) {
                        (Recovered::Ok { content: ca, .. }, Recovered::Ok { content: cb, .. }) => ca != cb,
                        (Recovered::OpenErr(_), Recovered::OpenErr(_)) => false,
                        _ => true,
                    };
                }
                if bad {
                    km += 1;
                    if std::env::var("FJV_DEBUG").is_ok() {
                        eprintln!("KILL-MISMATCH program {:?} n={} call={} {} exit={:?}", full.iter().map(|o| o.to_string()).collect::<Vec<_>>(), ev.n, ev.call, ev.path, killed.exit_code);
                        let _ = std::process::Command::new("cp").args(["-r", killed.root.to_str().unwrap(), "/dev/shm/mm_kill"]).status();
                        let _ = std::process::Command::new("cp").args(["-r", run.image_dir(ev.img).to_str().unwrap(), "/dev/shm/mm_img"]).status();
                    }
                }
            }
        }
        {
            let mut s = stats.lock().unwrap();
            s.programs += 1;
            s.images += st_images;
            s.torn += st_torn;
            s.pre_open_images += st_pre;
            s.kill_checks += kc;
            s.kill_mismatch += km;
            s.inflight_old += old;
            s.inflight_new += new;
            s.events += run.events.len() as u64;
        }
        outcomes.lock().unwrap().extend(local_out);
        let mut sm = samples.lock().unwrap();
        if sm.len() < 3 {
            sm.push(json!({"plan": pl.name, "program": full.iter().map(|o| o.to_string()).collect::<Vec<_>>(), "numbered_calls": run.events.len(), "first_calls_after_open": run.events.iter().filter(|e| e.n >= run.init_counter).take(6).map(|e| format!("#{} {} {} off={} len={}", e.n, e.call, e.path, e.off, e.len)).collect::<Vec<_>>()}));
        }
    });
    let s = stats.into_inner().unwrap();
    let kp = key_prefix;
    o.cov_add("evaluations", s.images + s.torn);
    o.cov_add("distinct_nontrivial", s.images + s.torn);
    o.cov(&format!("{kp}programs"), json!(s.programs));
    o.cov(&format!("{kp}programs_total"), json!(jobs.len()));
    o.cov(&format!("{kp}numbered_calls"), json!(s.events));
    o.cov(&format!("{kp}crash_images_checked"), json!(s.images));
    o.cov(&format!("{kp}torn_write_images_checked"), json!(s.torn));
    o.cov(&format!("{kp}images_before_first_open_returned_not_judged"), json!(s.pre_open_images));
    o.cov(&format!("{kp}recovered_without_inflight_op"), json!(s.inflight_old));
    o.cov(&format!("{kp}recovered_with_inflight_op"), json!(s.inflight_new));
    o.cov(&format!("{kp}image_vs_kill_checks"), json!(s.kill_checks));
    o.cov(&format!("{kp}image_vs_kill_mismatches"), json!(s.kill_mismatch));
    o.cov(&format!("{kp}distinct_recovered_states"), json!(outcomes.lock().unwrap().len()));
    if mode == CrashMode::PowerLoss {
        o.cov(&format!("{kp}images_not_an_exact_prefix_but_every_synced_write_survived"), json!(NON_PREFIX_POWERLOSS.swap(0, std::sync::atomic::Ordering::Relaxed)));
    }
    o.cov(&format!("{kp}plans"), json!(plans.iter().map(|p| json!({"name": p.name, "cfg": p.cfg.name(), "prefix": p.prefix, "depth": p.depth})).collect::<Vec<_>>()));
    if timed_out {
        o.cov("exhaustive", json!(false));
    }
    for sm in samples.into_inner().unwrap() {
        o.sample(sm);
    }
    if s.kill_mismatch > 0 {
        o.machinery_errors.push(format!("image mechanism does not conform to real kills: {} mismatches of {}", s.kill_mismatch, s.kill_checks));
    }
    o.cov(&format!("{kp}required_core_programs"), json!(required));
    if timed_out && done < required {
        o.machinery_errors.push(format!("time cap hit after {done} crash programs, before the required core of {required} was finished"));
    }
    if mode == CrashMode::Crash && plans.iter().any(|p| !p.cfg.manual_persist) && (s.inflight_new == 0 || s.inflight_old == 0) {
        o.machinery_errors.push("reachability witness missing: never saw both outcomes of an in-flight operation".into());
    }
    let mut f = findings.into_inner().unwrap();
    f.sort_by_key(|x| (x.sig.clone(), x.program.len(), x.variant["crash_before_call"].as_u64().unwrap_or(0)));
    o.findings.extend(f);
}

pub fn bodies(tier: &str) -> Vec<crate::e3::BodySpec> {
    use crate::props::c06::{Act, Finals, Kind, VisBody};
    use std::sync::Arc;
    let q = tier == "quick";
    vec![crate::e3::BodySpec {
        body: Arc::new(VisBody { name: "batch(x.a,x.b) || rotate x || worker flush; crash image after all acknowledgements [focus:commit-path]", kind: Kind::Plain, workers: 1, keyspaces: vec!["x"], initial: vec![("x", "ab", "0")], prerotate: vec![], threads: vec![vec![Act::Batch(vec![("x", "a", "1"), ("x", "b", "1")])], vec![Act::Rotate("x")]], finals: Finals::CrashImage }),
        bound: if q { 1 } else { 2 },
        secs: if q { 5.0 } else { 200.0 },
    }]
}

pub fn run(tier: &str) -> i32 {
    let t0 = Instant::now();
    let mut o = Outcome::new("C02", tier, "fault_enumeration");
    let q = tier == "quick";
    let deadline = t0 + Duration::from_secs_f64(if q { 30.0 } else { 1150.0 });
    o.cov("exhaustive", json!(true));
    crash_explore(&mut o, &plans(tier), deadline, q, if q { 2 } else { 12 }, "");
    o.cov("rule", json!("programs = all maximal operation programs of the plan's alphabet up to its depth (enumerated on the real code); each is executed once by a child process under the LD_PRELOAD shim, which copies the database directory before EVERY file-mutating libc call (crash image = what a process killed there leaves); every distinct image taken after the first open returned, plus marker-edge/middle/end splits of every journal write() and the middle split of every other write(), is recovered by the real code: open must succeed, all keyspaces together must equal the model after `acked` or `acked+1` operations, then overwrites/removes/reopen must behave. Each evaluated image is a distinct directory state. (Every byte split of journal appends is enumerated by C03.)"));
    crate::e3::fold_e3(&mut o, "C02", tier, &crate::e3::with_variants(bodies(tier), tier), "e3_");
    o.assumptions = vec![
        "single-threaded driver for the crash-point enumeration (the prefix oracle needs a deterministic commit order); concurrent writers are covered only by the E3 body, which takes ONE crash image (after every thread was acknowledged) under every schedule up to the preemption bound".into(),
        "a process crash does not reorder page-cache writes; power loss is C09's".into(),
        "lsm-tree's atomic rewrite of `current` renames through a raw syscall the shim cannot see; it is atomic and bracketed by interposed calls".into(),
    ];
    o.wall_s = t0.elapsed().as_secs_f64();
    finish(o)
}

pub fn replay(v: &serde_json::Value) -> i32 {
    let cfg = match Cfg::from_spec(v["variant"]["cfg"].as_str().unwrap_or("")) {
        Some(c) => c,
        None => return 2,
    };
    let ops: Vec<Op> = v["program"].as_array().map(|a| a.iter().filter_map(|s| s.as_str()).filter_map(|s| Op::parse(s).ok()).collect()).unwrap_or_default();
    let n = v["variant"]["crash_before_call"].as_u64().unwrap_or(0) as usize;
    // real kill before call n, then recover
    let killed = run_driver(&cfg, &ops, Mode::Crash(n), &[]);
    println!("replay: driver killed before call #{n}: exit {:?}", killed.exit_code);
    let hist = match record(fresh_dir(), cfg.clone(), &ops) {
        Ok((w, h)) => {
            drop(w);
            h
        }
        Err(e) => {
            eprintln!("{}", e.detail);
            return 2;
        }
    };
    if v["variant"]["torn_bytes"].is_u64() {
        println!("replay: (torn-write variants are replayed from the image run; showing the plain kill)");
    }
    let rec = recover_and_observe(&killed.root, &cfg);
    println!("replay: recovered {:?}", match &rec { Recovered::Ok { content, .. } => show_content(content), o => format!("{o:?}") });
    match rec {
        Recovered::Ok { content, inconsistent: None } if hist.states.contains(&content) => 0,
        _ => 1,
    }
}
