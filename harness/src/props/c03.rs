//! C03 — batches and transactions are all-or-nothing across crashes (E2: every byte cut of the journal).

use crate::crash::*;
use crate::explore::fresh_dir;
use crate::par::par_for;
use crate::report::*;
use crate::seqrun::threads;
use crate::world::*;
use serde_json::json;
use std::collections::BTreeSet;
use std::sync::Mutex;
use std::time::{Duration, Instant};

struct Shape {
    name: &'static str,
    cfg: Cfg,
    ops: Vec<&'static str>,
    /// sample the payload of large records instead of cutting at every byte
    sample_big: bool,
}

fn shapes(tier: &str) -> Vec<Shape> {
    let d = Cfg::default2();
    let nocomp = Cfg { lz4: false, ..d.clone() };
    let sw = Cfg { kind: DbKind::SingleWriter, ..d.clone() };
    let occ = Cfg { kind: DbKind::Optimistic, ..d.clone() };
    let q = tier == "quick";
    let s = |name, cfg: &Cfg, ops: &[&'static str], sample_big| Shape { name, cfg: cfg.clone(), ops: ops.to_vec(), sample_big };
    let mut v = vec![
        s("single-insert", &d, &["ins x.a=1"], false),
        s("batch-2ks", &d, &["batch [x.a=1 y.a=1]"], false),
        s("batch-3items", &d, &["batch [x.a=1 x.ab=2 y.b=1]"], false),
        s("batch-4items-tombstone", &d, &["ins x.a=1", "batch [x.a=- x.ab=2 y.a=1 y.b=-]"], false),
        s("two-batches", &d, &["batch [x.a=1 y.a=1]", "batch [x.a=2 y.a=- x.b=1]"], false),
        s("three-batches", &d, &["batch [x.a=1 y.a=1]", "batch [x.a=2 y.b=2]", "batch [x.a=- y.a=2]"], false),
        s("clear-between", &d, &["ins x.a=1", "clear x", "batch [x.ab=1 y.a=1]"], false),
        s("tx-overwrite-same-key", &sw, &["tx [x.a=1 x.a=2 x.a=- x.a=1 y.b=1]", "tx [x.a=2 y.b=-]"], false),
        s("optimistic-tx", &occ, &["tx [x.a=1 y.a=2]", "tx [x.a=- y.b=1]"], false),
        s("empty-values", &d, &["batch [x.a='' y.a='']", "batch [x.a=1 y.a='']"], false),
        s("big-lz4", &d, &["ins x.a=1", "batch [x.b=BIG y.a=1]"], q),
        s("big-nocomp", &nocomp, &["batch [x.b=BIG y.a=1]", "ins y.b=2"], q),
    ];
    if !q {
        v.push(s("two-big-spill-bufwriter", &d, &["batch [x.a=BIG x.b=BIG y.a=1]", "batch [x.a=1 y.a=2]"], true));
        v.push(s("rem-only", &d, &["ins x.a=1", "ins y.a=1", "batch [x.a=- y.a=-]"], false));
        v.push(s("clear-last", &d, &["batch [x.a=1 y.a=1]", "clear x"], false));
        v.push(s("clear-both", &d, &["batch [x.a=1 y.a=1]", "clear x", "clear y", "ins x.b=1"], false));
        v.push(s("tx-sw-3ks-values", &sw, &["tx [x.a=1 x.ab=1 x.b=1 y.a=1 y.ab=1 y.b=1]"], false));
        v.push(s("nocomp-small", &nocomp, &["batch [x.a=1 y.a=1]", "batch [x.a=2 y.a=2]"], false));
        v.push(s("single-rem", &d, &["ins x.a=1", "rem x.a"], false));
        v.push(s("big-single-lz4", &d, &["ins x.b=BIG"], false));
        v.push(s("big-single-nocomp", &nocomp, &["ins x.b=BIG"], false));
        v.push(s("five-singles", &d, &["ins x.a=1", "ins y.a=1", "rem x.a", "ins x.ab=2", "rem y.a"], false));
    }
    v
}

#[derive(Clone)]
struct Job {
    shape: usize,
    cut: u64,
    pad: bool,
}

/// Batches across background maintenance: every program over {two-keyspace batches, single insert, rotate, every queued
/// worker message with and without journal rotation}; a process-crash image after each program must contain every
/// batch entirely or not at all (a journal evicted too early, or a half-flushed batch that recovery skips, tears one).
fn maintenance_passes(tier: &str) -> Vec<crate::seqrun::Pass> {
    use crate::seqprop::*;
    let q = tier == "quick";
    let it = |ks, k, v| Item { ks, k, v };
    let mk = |name: &str, cfg: Cfg, pfx: &str, depth: usize, secs: f64| {
        let mut a = Alpha::empty();
        a.ins = vec![(1, 2, 0)];
        let groups = vec![vec![it(0, 0, Some(0)), it(1, 0, Some(0))], vec![it(0, 2, Some(1)), it(1, 0, Some(1)), it(0, 0, None)]];
        if cfg.kind == DbKind::Plain {
            a.batches = groups;
        } else {
            a.txs = groups;
        }
        a.rotate = vec![0, 1];
        a.jrot = true;
        let mut prop = SeqProp::new("C03", cfg, a);
        prop.prefix = prefix(pfx);
        prop.crash_atomicity_oracle = true;
        crate::seqrun::Pass { name: name.to_string(), prop, depth, min_depth: 3, budget: Duration::from_secs_f64(secs), dedup_extra: 0, dedup_budget: Duration::ZERO }
    };
    let d = Cfg::default2();
    let mut v = vec![mk("batches-across-maintenance", d.clone(), "", if q { 5 } else { 7 }, if q { 7.0 } else { 240.0 })];
    v.push(mk("batches-across-maintenance/two-sealed-journals", d.clone(), "two_sealed_journals", if q { 3 } else { 5 }, if q { 3.0 } else { 120.0 }));
    if !q {
        v.push(mk("tx-across-maintenance/single-writer", Cfg { kind: DbKind::SingleWriter, ..d.clone() }, "", 6, 120.0));
        v.push(mk("tx-across-maintenance/optimistic", Cfg { kind: DbKind::Optimistic, ..d.clone() }, "", 6, 120.0));
    }
    v
}

/// E3: a batch being applied while another thread rotates the memtable and fjall's worker flushes the sealed part; the
/// crash image taken afterwards must hold the batch entirely or not at all.
pub fn bodies(tier: &str) -> Vec<crate::e3::BodySpec> {
    use crate::props::c06::{Act, Finals, Kind, VisBody};
    use std::sync::Arc;
    let q = tier == "quick";
    let mut v = vec![crate::e3::BodySpec {
        body: Arc::new(VisBody { name: "batch(x.a,x.b,y.a) || rotate x || worker flush; crash image: batch all-or-nothing [focus:commit-path]", kind: Kind::Plain, workers: 1, keyspaces: vec!["x", "y"], initial: vec![("x", "ab", "0")], prerotate: vec![], threads: vec![vec![Act::Batch(vec![("x", "a", "1"), ("x", "b", "1"), ("y", "a", "1")])], vec![Act::Rotate("x")]], finals: Finals::CrashAtomic }),
        bound: if q { 1 } else { 2 },
        secs: if q { 6.0 } else { 200.0 },
    }];
    // a bulk ingestion into one of the batch's keyspaces finishes meanwhile (it flushes that keyspace and registers
    // tables with a newer seqno): recovery must still replay the batch as a whole
    v.push(crate::e3::BodySpec {
        body: Arc::new(VisBody { name: "batch(x.a,y.a) || ingest x; crash image: batch all-or-nothing [focus:write-path]", kind: Kind::Plain, workers: 0, keyspaces: vec!["x", "y"], initial: vec![("x", "ab", "0")], prerotate: vec![], threads: vec![vec![Act::Batch(vec![("x", "a", "1"), ("y", "a", "1")])], vec![Act::Ingest("x", vec![("b", "5")])]], finals: Finals::CrashAtomic }),
        bound: 2,
        secs: if q { 4.0 } else { 120.0 },
    });
    if !q {
        v.push(crate::e3::BodySpec {
            body: Arc::new(VisBody { name: "sw-tx(x.a,x.b,y.a) || rotate x || worker flush; crash image: tx all-or-nothing [focus:commit-path]", kind: Kind::Sw, workers: 1, keyspaces: vec!["x", "y"], initial: vec![("x", "ab", "0")], prerotate: vec![], threads: vec![vec![Act::Tx(vec![("x", "a", "1"), ("x", "b", "1"), ("y", "a", "1")])], vec![Act::Rotate("x")]], finals: Finals::CrashAtomic }),
            bound: 2,
            secs: 200.0,
        });
    }
    v
}

pub fn run(tier: &str) -> i32 {
    let t0 = Instant::now();
    let mut o = Outcome::new("C03", tier, "fault_enumeration");
    let mpasses = maintenance_passes(tier);
    crate::seqrun::run_passes(&mut o, &mpasses);
    let passes_exhaustive = o.coverage.get("exhaustive").and_then(|v| v.as_bool()).unwrap_or(true);
    let budget = if tier == "quick" { 40.0 } else { 1100.0 };
    let deadline = Instant::now() + Duration::from_secs_f64(budget);
    let shapes = shapes(tier);

    // Phase 1: record every shape (database kept open = process-crash image of the journal), note record boundaries.
    struct Prepared {
        img: std::path::PathBuf,
        hist: History,
        offs: Vec<u64>,
        full_len: u64,
        jname: String,
    }
    let mut prepared = vec![];
    for sh in &shapes {
        let ops: Vec<Op> = sh.ops.iter().map(|s| Op::parse(s).expect("shape op")).collect();
        let dir = fresh_dir();
        let mut w = match World::new(dir.clone(), sh.cfg.clone()) {
            Ok(w) => w,
            Err(v) => {
                o.machinery_errors.push(format!("shape {} setup failed: {}", sh.name, v.detail));
                continue;
            }
        };
        let j = active_journal(&dir).expect("journal");
        let mut offs = vec![used_len(&j).unwrap_or(0)];
        let mut states = vec![model_content(&w.model)];
        let mut ok = true;
        for op in &ops {
            if let Err(v) = w.apply(op) {
                o.machinery_errors.push(format!("shape {} op {op} failed: {}", sh.name, v.detail));
                ok = false;
                break;
            }
            offs.push(used_len(&j).unwrap_or(0));
            states.push(model_content(&w.model));
        }
        if !ok {
            continue;
        }
        let img = fresh_dir();
        copy_tree(&dir, &img).expect("copy image");
        let full_len = std::fs::metadata(&j).map(|m| m.len()).unwrap_or(0);
        let jname = j.file_name().unwrap().to_string_lossy().into_owned();
        drop(w); // clean close of the original (the image was taken before)
        prepared.push(Prepared { img, hist: History { cfg: sh.cfg.clone(), ops, states, sync_fence: vec![], buffer_fence: vec![] }, offs, full_len, jname });
    }

    // Phase 2: jobs = every byte offset x {EOF, zero padded}
    let mut jobs = vec![];
    for (si, p) in prepared.iter().enumerate() {
        let end = *p.offs.last().unwrap();
        let mut cuts: BTreeSet<u64> = BTreeSet::new();
        if shapes[si].sample_big && end > 2000 {
            for w in p.offs.windows(2) {
                let (a, b) = (w[0], w[1]);
                if b - a <= 400 {
                    cuts.extend(a..=b);
                } else {
                    cuts.extend(a..=a + 100);
                    cuts.extend(b - 100..=b);
                    for i in 0..32 {
                        cuts.insert(a + 100 + (b - a - 200) * i / 32);
                    }
                    // around 8 KiB BufWriter boundaries
                    for k in [8192u64, 16384] {
                        if k > a + 2 && k + 2 < b {
                            cuts.extend(k - 2..=k + 2);
                        }
                    }
                }
            }
        } else {
            cuts.extend(0..=end);
        }
        for c in cuts {
            jobs.push(Job { shape: si, cut: c, pad: false });
            jobs.push(Job { shape: si, cut: c, pad: true });
        }
    }
    // simplest first: smaller cuts first within shape order is already the case

    let findings: Mutex<Vec<Finding>> = Mutex::new(vec![]);
    let outcomes: Mutex<BTreeSet<String>> = Mutex::new(BTreeSet::new());
    let stats = Mutex::new((0u64, 0u64, 0u64)); // (mid-record cuts, boundary cuts, append checks)
    let required_core = jobs.iter().take_while(|j| j.shape < 8).count();
    let (done, timed_out) = crate::par::par_for_core(jobs.len(), required_core, threads(), deadline, |i| {
        let job = &jobs[i];
        let p = &prepared[job.shape];
        let sh = &shapes[job.shape];
        let dir = fresh_dir();
        let res = (|| -> Result<(String, bool), (String, String)> {
            copy_tree(&p.img, &dir).map_err(|e| ("harness".to_string(), format!("copy: {e}")))?;
            let j = dir.join(&p.jname);
            cut_file(&j, job.cut, if job.pad { Some(p.full_len) } else { None })
                .map_err(|e| ("harness".to_string(), format!("cut: {e}")))?;
            // expected prefix: largest i with offs[i] <= cut
            let expect = p.offs.iter().rposition(|o| *o <= job.cut).unwrap_or(0);
            let boundary = p.offs.contains(&job.cut);
            let got = match recover_and_observe(&dir, &p.hist.cfg) {
                Recovered::Ok { content, inconsistent: None } => content,
                Recovered::Ok { inconsistent: Some(d), .. } => return Err(("recovered.inconsistent_reads".into(), d)),
                Recovered::OpenErr(e) => return Err(("recover.open_error".into(), e)),
                Recovered::Panic(e) => return Err(("recover.panic".into(), e)),
            };
            if got != p.hist.states[expect] {
                let partial = matching_prefix(&p.hist, &got, 0, p.hist.states.len() - 1).is_none();
                return Err((
                    if partial { "recovered.not_a_prefix".into() } else { "recovered.wrong_prefix".into() },
                    format!("expected state after {expect} ops {} got {}", show_content(&p.hist.states[expect]), show_content(&got)),
                ));
            }
            // appendable again: one more batch on the repaired journal, clean close, reopen
            let mut expect2 = p.hist.states[expect].clone();
            {
                let db = open_db(&dir, &p.hist.cfg, &None).map_err(|e| ("append.open_error".to_string(), format!("{e:?}")))?;
                let x = db.inner().keyspace("x", fjall::KeyspaceCreateOptions::default).map_err(|e| ("append.error".to_string(), format!("{e:?}")))?;
                let y = db.inner().keyspace("y", fjall::KeyspaceCreateOptions::default).map_err(|e| ("append.error".to_string(), format!("{e:?}")))?;
                let mut b = db.inner().batch();
                b.insert(&x, "b", "2");
                b.insert(&y, "b", "2");
                b.remove(&x, "ab");
                b.commit().map_err(|e| ("append.error".to_string(), format!("{e:?}")))?;
                expect2.get_mut("x").unwrap().insert(b"b".to_vec(), b"2".to_vec());
                expect2.get_mut("x").unwrap().remove(b"ab".as_slice());
                expect2.get_mut("y").unwrap().insert(b"b".to_vec(), b"2".to_vec());
            }
            match recover_and_observe(&dir, &p.hist.cfg) {
                Recovered::Ok { content, inconsistent: None } => {
                    if content != expect2 {
                        return Err((
                            "append.not_recovered".into(),
                            format!("after appending a batch to the repaired journal and reopening: expected {} got {}", show_content(&expect2), show_content(&content)),
                        ));
                    }
                }
                Recovered::Ok { inconsistent: Some(d), .. } => return Err(("append.inconsistent_reads".into(), d)),
                Recovered::OpenErr(e) => return Err(("append.reopen_error".into(), e)),
                Recovered::Panic(e) => return Err(("append.reopen_panic".into(), e)),
            }
            Ok((format!("{}:{expect}", sh.name), boundary))
        })();
        let _ = std::fs::remove_dir_all(&dir);
        match res {
            Ok((oc, boundary)) => {
                outcomes.lock().unwrap().insert(oc);
                let mut s = stats.lock().unwrap();
                if boundary {
                    s.1 += 1;
                } else {
                    s.0 += 1;
                }
                s.2 += 1;
            }
            Err((clause, detail)) => {
                if clause == "harness" {
                    return;
                }
                let rec = p.offs.iter().rposition(|o| *o <= job.cut).unwrap_or(0);
                let within = job.cut - p.offs[rec];
                let zone = if p.offs.contains(&job.cut) { "boundary" } else if within <= 13 { "in-start-marker" } else { "in-items-or-end" };
                findings.lock().unwrap().push(Finding {
                    sig: format!("{clause}|shape={}|{}|{zone}", sh.name, if job.pad { "zero-padded" } else { "eof" }),
                    engine: "E2-bytecut".into(),
                    variant: json!({"shape": sh.name, "cfg": sh.cfg.name(), "cut": job.cut, "pad": job.pad, "record_boundaries": p.offs}),
                    program: sh.ops.iter().map(|s| s.to_string()).collect(),
                    clause,
                    detail: format!("journal cut at byte {} ({}): {detail}", job.cut, if job.pad { "zero padded to preallocated size" } else { "file ends there" }),
                });
            }
        }
    });
    for p in &prepared {
        let _ = std::fs::remove_dir_all(&p.img);
    }
    let st = stats.lock().unwrap().clone();
    let f = findings.into_inner().unwrap();
    o.cov("evaluations", json!(done));
    o.cov("distinct_nontrivial", json!(st.0));
    o.cov("rule", json!("for each batch/transaction shape the journal written by the real code is cut at EVERY byte offset 0..=used length (large records: every byte within 100 of a record edge + 32 evenly spaced payload offsets + 8 KiB buffer boundaries in quick tier, every byte in thorough), once ending there and once zero-padded to the preallocated size; the image is recovered by the real code and must equal the model after exactly the batches that end at or before the cut; then a further batch is appended, the database closed and reopened. non-trivial = cuts strictly inside a record (torn batch). In addition (coverage.passes): every program up to the per-pass depth over {two-keyspace batches or transactions, single insert, memtable rotation, every queued worker message with and without journal rotation} is executed with stepped background work; after each program a process-crash image is recovered and every committed batch must be present entirely or not at all"));
    o.cov("shapes", json!(shapes.iter().map(|s| json!({"name": s.name, "cfg": s.cfg.name(), "ops": s.ops})).collect::<Vec<_>>()));
    o.cov("jobs_total", json!(jobs.len()));
    o.cov("cuts_inside_a_record", json!(st.0));
    o.cov("cuts_at_record_boundary", json!(st.1));
    o.cov("append_after_repair_checks", json!(st.2));
    o.cov("distinct_outcomes", json!(outcomes.lock().unwrap().len()));
    o.cov("exhaustive", json!(!timed_out && passes_exhaustive));
    for (i, p) in prepared.iter().enumerate().take(3) {
        o.sample(json!({"shape": shapes[i].name, "ops": shapes[i].ops, "record_end_offsets": p.offs, "example": format!("cut at byte {} zero-padded -> expect state after {} ops", p.offs.last().unwrap() - 1, p.offs.len() - 2)}));
    }
    o.assumptions = vec![
        "process-crash image = the files as the OS sees them while the database is still open (default persist mode flushes every commit to the OS)".into(),
        "tails of arbitrary garbage are not enumerated (the property speaks of a journal that ends, with or without zero padding); single-byte damage is C15's".into(),
    ];
    let required = jobs.iter().filter(|j| j.shape < 8).count();
    if timed_out && done < required {
        o.machinery_errors.push(format!("time cap hit after {done}/{} cuts, before the required core ({required}: the first 8 shapes) finished", jobs.len()));
    }
    if outcomes.lock().unwrap().len() < 2 {
        o.machinery_errors.push("vacuous: fewer than 2 distinct outcomes".into());
    }
    // group findings: keep the smallest cut per signature
    let mut f = f;
    f.sort_by_key(|x| (x.sig.clone(), x.variant["cut"].as_u64().unwrap_or(0)));
    o.findings.extend(f);
    crate::e3::fold_e3(&mut o, "C03", tier, &crate::e3::with_variants(bodies(tier), tier), "e3_");
    o.wall_s = t0.elapsed().as_secs_f64();
    finish(o)
}

pub fn replay(v: &serde_json::Value) -> i32 {
    if v["engine"] == "E3-schedcheck" {
        let tier = v["variant"]["tier"].as_str().unwrap_or("quick");
        let bi = v["variant"]["body_index"].as_u64().unwrap_or(0) as usize;
        let choices: Vec<usize> = v["variant"]["choices"].as_array().map(|a| a.iter().filter_map(|c| c.as_u64().map(|c| c as usize)).collect()).unwrap_or_default();
        return match crate::e3::with_variants(bodies(tier), tier).get(bi) {
            Some(b) => crate::e3::replay_schedule(&*b.body, &choices),
            None => 2,
        };
    }
    if v["engine"] == "E1-seqcheck" {
        let name = v["variant"]["pass"].as_str().unwrap_or("");
        let plen = v["variant"]["prefix_len"].as_u64().unwrap_or(0) as usize;
        let program: Vec<String> = v["program"].as_array().map(|a| a.iter().filter_map(|s| s.as_str().map(String::from)).collect()).unwrap_or_default();
        for tier in ["quick", "thorough"] {
            if let Some(p) = maintenance_passes(tier).into_iter().find(|p| p.name == name) {
                return crate::seqrun::replay_with(&p, &program, plen);
            }
        }
        return 2;
    }
    let shape = v["variant"]["shape"].as_str().unwrap_or("");
    let cut = v["variant"]["cut"].as_u64().unwrap_or(0);
    let pad = v["variant"]["pad"].as_bool().unwrap_or(false);
    for tier in ["quick", "thorough"] {
        if let Some(sh) = shapes(tier).into_iter().find(|s| s.name == shape) {
            let ops: Vec<Op> = sh.ops.iter().map(|s| Op::parse(s).unwrap()).collect();
            let dir = fresh_dir();
            let (w, hist) = match record(dir.clone(), sh.cfg.clone(), &ops) {
                Ok(x) => x,
                Err(e) => {
                    eprintln!("record failed: {}", e.detail);
                    return 2;
                }
            };
            let img = fresh_dir();
            copy_tree(&dir, &img).unwrap();
            let j = active_journal(&img).unwrap();
            let full = std::fs::metadata(&j).unwrap().len();
            drop(w);
            cut_file(&j, cut, if pad { Some(full) } else { None }).unwrap();
            let r = recover_and_observe(&img, &sh.cfg);
            println!("replay: shape {shape} cut {cut} pad {pad}: recovered {:?}", match &r { Recovered::Ok { content, .. } => show_content(content), other => format!("{other:?}") });
            println!("model states: {:?}", hist.states.iter().map(show_content).collect::<Vec<_>>());
            let _ = std::fs::remove_dir_all(&img);
            return match r {
                Recovered::Ok { content, inconsistent: None } if hist.states.contains(&content) => 0,
                _ => 1,
            };
        }
    }
    2
}
