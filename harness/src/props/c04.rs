//! C04 — close and reopen reproduces exactly the same logical content (E1 with `reopen`).

use crate::core::Probe;
use crate::report::*;
use crate::seqprop::*;
use crate::seqrun::*;
use crate::world::*;
use serde_json::json;
use std::time::{Duration, Instant};

fn alpha_narrow() -> Alpha {
    let mut a = Alpha::narrow(false);
    a.batches.truncate(1);
    a.jrot = true;
    a.reopen = true;
    a.max_reopen = 2;
    a
}

/// The set of keyspaces changes between the reopen cycles (create, delete, re-create); values stay small.
fn alpha_names() -> Alpha {
    let mut a = Alpha::empty();
    a.ins = vec![(1, 0, 0), (2, 0, 1)];
    a.create = vec![1, 2];
    a.delete = vec![1, 2];
    a.steps = false;
    a.reopen = true;
    a.max_reopen = 2;
    a
}

fn alpha_wide() -> Alpha {
    let mut a = Alpha::empty();
    a.ins = vec![(0, 0, 0), (0, 0, 1), (0, 2, 0), (0, 1, 3), (1, 0, 0)];
    a.rem = vec![(0, 0), (1, 0)];
    a.batches = vec![vec![Item { ks: 0, k: 0, v: Some(1) }, Item { ks: 1, k: 0, v: Some(1) }]];
    a.txs = vec![vec![Item { ks: 0, k: 2, v: Some(1) }, Item { ks: 1, k: 0, v: None }]];
    a.clear = vec![0];
    a.ingest = vec![(0, vec![(0, Some(1))]), (0, vec![(0, None), (2, Some(1))]), (1, vec![(1, Some(0))])];
    a.rotate = vec![0, 1];
    a.major = vec![0];
    a.jrot = true;
    a.reopen = true;
    a.max_reopen = 3;
    a
}

fn mk(name: &str, cfg: Cfg, alpha: Alpha, pfx: &str, depth: usize, min_depth: usize, secs: f64, probe: Probe) -> Pass {
    let mut prop = SeqProp::new("C04", cfg, alpha);
    prop.prefix = prefix(pfx);
    prop.probe = probe;
    prop.judge_only_after_reopen = true;
    Pass { name: name.to_string(), prop, depth, min_depth, budget: Duration::from_secs_f64(secs), dedup_extra: 0, dedup_budget: Duration::ZERO }
}

pub fn passes(tier: &str) -> Vec<Pass> {
    let d = Cfg::default2();
    let one = Cfg { nks: 1, ..d.clone() };
    let q = tier == "quick";
    let mut v = vec![
        mk("narrow/default", one.clone(), alpha_narrow(), "", if q { 5 } else { 7 }, if q { 4 } else { 5 }, if q { 12.0 } else { 300.0 }, Probe::Lite),
        mk("wide/default", d.clone(), alpha_wide(), "", if q { 3 } else { 4 }, if q { 2 } else { 3 }, if q { 6.0 } else { 240.0 }, Probe::Full),
        mk("narrow/from-last-level", one.clone(), alpha_narrow(), "a_in_last_level", if q { 4 } else { 6 }, 3, if q { 5.0 } else { 120.0 }, Probe::Lite),
        mk("narrow-big/blob", Cfg { blob: true, ..one.clone() }, { let mut a = alpha_narrow(); a.ins = vec![(0, 0, 3), (0, 0, 0)]; a }, "", if q { 4 } else { 6 }, 3, if q { 5.0 } else { 120.0 }, Probe::Lite),
        mk("wide/batch-half-flushed", d.clone(), alpha_wide(), "batch_half_flushed", if q { 2 } else { 4 }, 1, if q { 3.0 } else { 120.0 }, Probe::Full),
        mk("wide/two-sealed-journals", d.clone(), alpha_wide(), "two_sealed_journals", if q { 2 } else { 4 }, 2, if q { 4.0 } else { 150.0 }, Probe::Full),
        mk("wide/two-sealed-journals/small-journal-limit", Cfg { maxj: true, ..d.clone() }, alpha_wide(), "two_sealed_journals", if q { 2 } else { 4 }, 1, if q { 3.0 } else { 150.0 }, Probe::Full),
        mk("names/create-delete-recreate", d.clone(), alpha_names(), "", if q { 6 } else { 8 }, 4, if q { 5.0 } else { 150.0 }, Probe::Lite),
        mk("wide/journals-9-and-10", d.clone(), alpha_wide(), "journals_9_and_10", if q { 1 } else { 3 }, 1, if q { 3.0 } else { 150.0 }, Probe::Full),
        mk("wide/sealed-journal-half-flushed", d.clone(), alpha_wide(), "sealed_journal_x_half_flushed", if q { 2 } else { 4 }, 1, if q { 3.0 } else { 150.0 }, Probe::Full),
        mk("wide/sealed-journal-all-record-kinds", d.clone(), alpha_wide(), "sealed_journal_all_kinds", if q { 2 } else { 4 }, 1, if q { 3.0 } else { 150.0 }, Probe::Full),
        mk("wide/single-writer-tx", Cfg { kind: DbKind::SingleWriter, ..d.clone() }, alpha_wide(), "", if q { 2 } else { 3 }, 2, if q { 3.0 } else { 60.0 }, Probe::Lite),
    ];
    if !q {
        v.push(mk("wide/optimistic-tx", Cfg { kind: DbKind::Optimistic, ..d.clone() }, alpha_wide(), "", 3, 2, 60.0, Probe::Lite));
        v.push(mk("narrow/leveled-l0=2", Cfg { strat: Strat::LeveledL2, ..one.clone() }, alpha_narrow(), "", 6, 4, 120.0, Probe::Lite));
        v.push(mk("narrow/tiny", Cfg { tiny: true, ..one.clone() }, alpha_narrow(), "", 6, 4, 90.0, Probe::Lite));
        // (no ingestion with FIFO: compaction after an overlapping ingestion panics in lsm-tree — C01's known finding)
        v.push(mk("narrow/fifo", Cfg { strat: Strat::Fifo, ..one.clone() }, { let mut a = alpha_narrow(); a.ingest.clear(); a }, "", 6, 4, 90.0, Probe::Lite));
        v.push(mk("narrow/manual-persist-nocomp", Cfg { manual_persist: true, lz4: false, ..one.clone() }, alpha_narrow(), "", 5, 4, 60.0, Probe::Lite));
        v.push(mk("wide/l6_l0_mem", d.clone(), alpha_wide(), "l6_l0_mem", 3, 2, 90.0, Probe::Full));
    }
    v
}

pub fn bodies(tier: &str) -> Vec<crate::e3::BodySpec> {
    use crate::props::c06::{Act, Finals, Kind, VisBody};
    use std::sync::Arc;
    let q = tier == "quick";
    let b = |body: VisBody, bound: usize, secs: f64| crate::e3::BodySpec { body: Arc::new(body), bound, secs };
    vec![
        b(VisBody { name: "clear x || insert x.a, then reopen", kind: Kind::Plain, workers: 0, keyspaces: vec!["x"], initial: vec![("x", "a", "0"), ("x", "b", "0")], prerotate: vec![], threads: vec![vec![Act::Clear("x")], vec![Act::Ins(("x", "a", "1"))]], finals: Finals::ReopenSame }, 2, if q { 5.0 } else { 120.0 }),
        b(VisBody { name: "ingest(a,b) || insert a || insert b, then reopen", kind: Kind::Plain, workers: 0, keyspaces: vec!["x"], initial: vec![("x", "ab", "0")], prerotate: vec![], threads: vec![vec![Act::Ingest("x", vec![("a", "ingested"), ("b", "ingested")])], vec![Act::Ins(("x", "a", "written"))], vec![Act::Ins(("x", "b", "written"))]], finals: Finals::ReopenSame }, 2, if q { 4.0 } else { 120.0 }),
        b(VisBody { name: "batch || clear y || insert, then reopen", kind: Kind::Plain, workers: 0, keyspaces: vec!["x", "y"], initial: vec![("x", "a", "0"), ("y", "a", "0")], prerotate: vec![], threads: vec![vec![Act::Batch(vec![("x", "a", "1"), ("y", "a", "1")])], vec![Act::Clear("y")], vec![Act::Ins(("y", "b", "2"))]], finals: Finals::ReopenSame }, if q { 1 } else { 2 }, if q { 6.0 } else { 200.0 }),
    ]
}

pub fn run(tier: &str) -> i32 {
    let t0 = Instant::now();
    let mut o = Outcome::new("C04", tier, "model_checking");
    let ps = with_dedup(passes(tier), tier);
    let wit = run_passes(&mut o, &ps);
    o.cov("rule", json!("every enabled program (writes, batches, tx commits, clear, ingestion incl. over existing keys, rotation, each queued worker message, journal rotation, major compaction, up to 3 reopen) up to the per-pass depth is executed on the real database; only states reached through >=1 reopen are judged: all read methods of every keyspace == BTreeMap model (which the same program's prefix before the close was shown equal to), keyspace set equal"));
    o.assumptions = vec![
        "clean close = dropping every handle; crash images are C02's".into(),
        "key universe {a,ab,b}; depth bounds per pass as reported".into(),
    ];
    if wit.reopened == 0 || wit.flushed == 0 {
        o.machinery_errors.push(format!("reachability witness missing: {:?}", wit));
    }
    crate::e3::fold_e3(&mut o, "C04", tier, &crate::e3::with_variants(bodies(tier), tier), "e3_");
    o.wall_s = t0.elapsed().as_secs_f64();
    finish(o)
}

pub fn replay(v: &serde_json::Value) -> i32 {
    if v["engine"] == "E3-schedcheck" {
        let tier = v["variant"]["tier"].as_str().unwrap_or("quick");
        let bi = v["variant"]["body_index"].as_u64().unwrap_or(0) as usize;
        let choices: Vec<usize> = v["variant"]["choices"].as_array().map(|a| a.iter().filter_map(|c| c.as_u64().map(|c| c as usize)).collect()).unwrap_or_default();
        return match crate::e3::with_variants(bodies(tier), tier).get(bi) {
            Some(b) => crate::e3::replay_schedule(&*b.body, &choices),
            None => 2,
        };
    }
    let name = v["variant"]["pass"].as_str().unwrap_or("");
    let plen = v["variant"]["prefix_len"].as_u64().unwrap_or(0) as usize;
    let program: Vec<String> = v["program"].as_array().map(|a| a.iter().filter_map(|s| s.as_str().map(String::from)).collect()).unwrap_or_default();
    for tier in ["quick", "thorough"] {
        if let Some(p) = passes(tier).into_iter().find(|p| p.name == name) {
            return replay_with(&p, &program, plen);
        }
    }
    eprintln!("unknown pass {name}");
    2
}
