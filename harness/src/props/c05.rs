//! C05 — snapshots, read transactions and iterators are frozen in time (E1 with views; E3 bodies in c05e3).

use crate::core::*;
use crate::explore::*;
use crate::report::*;
use crate::seqprop::*;
use crate::seqrun::{merge_wit, threads};
use crate::world::*;
use fjall::{OptimisticWriteTx, Readable, SingleWriterWriteTx, Snapshot};
use serde_json::json;
use std::collections::BTreeMap;
use std::path::PathBuf;
use std::time::{Duration, Instant};

#[derive(Clone, Debug, PartialEq, Eq, PartialOrd, Ord, Hash)]
pub enum VOp {
    Base(Op),
    /// Database::snapshot / read_tx
    SnapOpen,
    /// clone of view i (Snapshot::clone)
    SnapClone(u8),
    /// Keyspace::{iter, range(a..), prefix(a)} on keyspace x: kind 0,1,2
    IterOpen(u8),
    /// the same through snapshot view i
    IterOpenVia(u8, u8),
    IterNext(u8),
    IterBack(u8),
    /// begin a write transaction (database kind decides which)
    TxOpen,
    /// write x.a=<v> inside transaction view i
    TxWrite(u8, u8),
    TxCommit(u8),
    /// explicit `rollback()` of transaction view i (as opposed to dropping it: `Close`)
    TxRollback(u8),
    Close(u8),
}

impl std::fmt::Display for VOp {
    fn fmt(&self, f: &mut std::fmt::Formatter<'_>) -> std::fmt::Result {
        match self {
            VOp::Base(o) => write!(f, "{o}"),
            VOp::SnapOpen => write!(f, "snapshot+"),
            VOp::SnapClone(i) => write!(f, "snapshot-clone v{i}"),
            VOp::IterOpen(k) => write!(f, "iter+ x.{}", ["iter()", "range(a..)", "prefix(a)"][*k as usize]),
            VOp::IterOpenVia(i, k) => write!(f, "iter+ v{i}.x.{}", ["iter()", "range(a..)", "prefix(a)"][*k as usize]),
            VOp::IterNext(i) => write!(f, "next v{i}"),
            VOp::IterBack(i) => write!(f, "next_back v{i}"),
            VOp::TxOpen => write!(f, "tx+"),
            VOp::TxWrite(i, v) => write!(f, "tx-write v{i} x.a={v}"),
            VOp::TxCommit(i) => write!(f, "tx-commit v{i}"),
            VOp::TxRollback(i) => write!(f, "tx-rollback v{i}"),
            VOp::Close(i) => write!(f, "close v{i}"),
        }
    }
}

impl VOp {
    pub fn parse(s: &str) -> Result<VOp, String> {
        let s = s.trim();
        let idx = |t: &str| t.trim_start_matches('v').parse::<u8>().map_err(|_| format!("bad view {t}"));
        let kind = |t: &str| -> Result<u8, String> {
            Ok(match t {
                "iter()" => 0,
                "range(a..)" => 1,
                "prefix(a)" => 2,
                _ => return Err(format!("bad iter kind {t}")),
            })
        };
        if s == "snapshot+" {
            return Ok(VOp::SnapOpen);
        }
        if s == "tx+" {
            return Ok(VOp::TxOpen);
        }
        if let Some(r) = s.strip_prefix("snapshot-clone ") {
            return Ok(VOp::SnapClone(idx(r)?));
        }
        if let Some(r) = s.strip_prefix("iter+ x.") {
            return Ok(VOp::IterOpen(kind(r)?));
        }
        if let Some(r) = s.strip_prefix("iter+ v") {
            let (i, k) = r.split_once(".x.").ok_or("iter via")?;
            return Ok(VOp::IterOpenVia(idx(i)?, kind(k)?));
        }
        if let Some(r) = s.strip_prefix("next_back ") {
            return Ok(VOp::IterBack(idx(r)?));
        }
        if let Some(r) = s.strip_prefix("next ") {
            return Ok(VOp::IterNext(idx(r)?));
        }
        if let Some(r) = s.strip_prefix("tx-write ") {
            let (i, v) = r.split_once(" x.a=").ok_or("tx-write")?;
            return Ok(VOp::TxWrite(idx(i)?, v.parse().map_err(|_| "val")?));
        }
        if let Some(r) = s.strip_prefix("tx-commit ") {
            return Ok(VOp::TxCommit(idx(r)?));
        }
        if let Some(r) = s.strip_prefix("tx-rollback ") {
            return Ok(VOp::TxRollback(idx(r)?));
        }
        if let Some(r) = s.strip_prefix("close ") {
            return Ok(VOp::Close(idx(r)?));
        }
        Op::parse(s).map(VOp::Base)
    }
}

enum ViewKind {
    Snap(Snapshot),
    Iter { it: fjall::Iter, front: usize, back: usize, expected: Vec<(Vec<u8>, Vec<u8>)> },
    Sw(SingleWriterWriteTx<'static>),
    Occ(OptimisticWriteTx),
}

struct View {
    kind: ViewKind,
    /// frozen clone of the model at creation (plus the transaction's own writes)
    frozen: BTreeMap<u8, Map>,
    instant: u64,
    /// value this transaction wrote to x.a (applied to the model when it commits)
    wrote_a: Option<Vec<u8>>,
}

pub struct VWorld {
    // NOTE: views must be dropped before the world
    views: Vec<Option<View>>,
    w: World,
    anomalies: u32,
}

pub struct ViewProp {
    pub cfg: Cfg,
    pub prefix: Vec<Op>,
    pub alpha: Alpha,
    pub max_views: usize,
    pub iters: bool,
    pub txs: bool,
    pub amplify: bool,
}

fn frozen_range(m: &Map, kind: u8) -> Vec<(Vec<u8>, Vec<u8>)> {
    m.iter()
        .filter(|(k, _)| match kind {
            0 => true,
            1 => k.as_slice() >= b"a".as_slice(),
            _ => k.starts_with(b"a"),
        })
        .map(|(k, v)| (k.clone(), v.clone()))
        .collect()
}

impl VWorld {
    fn live(&self) -> usize {
        self.views.iter().filter(|v| v.is_some()).count()
    }

    fn check_views(&mut self, probe: Probe) -> Result<Vec<u64>, Violation> {
        let mut digests = vec![];
        for (i, v) in self.views.iter().enumerate() {
            let Some(v) = v else { continue };
            for (ks, m) in &v.frozen {
                let Some(h) = self.w.ks.get(ks) else { continue };
                let got = match &v.kind {
                    ViewKind::Snap(s) => observe_view(s, h, probe),
                    ViewKind::Sw(t) => observe_view(t, h, probe),
                    ViewKind::Occ(t) => observe_view(t, h, probe),
                    ViewKind::Iter { .. } => continue,
                };
                let want = observe_model(m, probe);
                if got != want {
                    return Err(Violation::new(
                        "view.not_frozen",
                        format!("view v{i} (instant {}) keyspace {}: {} (frozen state {})", v.instant, ksn(*ks), got.diff(&want), show_map(m)),
                    ));
                }
                digests.push(got.digest());
            }
        }
        Ok(digests)
    }

    /// tracker bookkeeping vs live views; returns a description if it looks unsafe
    fn tracker_anomaly(&self) -> Option<String> {
        let (live, watermark) = self.w.dbi().verif_snapshots();
        let mut need: BTreeMap<u64, usize> = BTreeMap::new();
        for v in self.views.iter().flatten() {
            *need.entry(v.instant).or_insert(0) += 1;
        }
        for (inst, n) in need {
            let have = live.iter().find(|(i, _)| *i == inst).map(|(_, c)| *c).unwrap_or(0);
            if have < 1 {
                return Some(format!("instant {inst} has {n} live view(s) but tracker count {have}"));
            }
            if watermark > inst {
                return Some(format!("gc watermark {watermark} is above live instant {inst}"));
            }
        }
        None
    }

    /// Directed continuation: overwrite everything, flush and compact every keyspace, so that anything the
    /// tracker no longer protects is really garbage collected; then the views are observed again.
    fn amplify(&mut self) -> Result<(), Violation> {
        let kss: Vec<u8> = self.w.ks.keys().copied().collect();
        for round in 0..2u8 {
            for ks in &kss {
                if !self.w.write_enabled(*ks) {
                    continue;
                }
                for k in 0..3u8 {
                    self.w.apply(&Op::Ins { ks: *ks, k, v: round })?;
                }
                // a short-lived snapshot at the newest instant comes and goes (as every scan does)
                drop(self.w.dbi().snapshot());
                self.w.apply(&Op::Rotate { ks: *ks })?;
            }
            let mut guard = 0;
            while let Some(m) = self.w.pending().first().cloned() {
                self.w.apply(&Op::Step { msg: m, jrot: false })?;
                guard += 1;
                if guard > 50 {
                    break;
                }
            }
        }
        for ks in &kss {
            self.w.apply(&Op::Major { ks: *ks })?;
        }
        Ok(())
    }
}

impl Property for ViewProp {
    type Op = VOp;
    type World = VWorld;
    type Stats = Witness;

    fn id(&self) -> &'static str {
        "C05"
    }

    fn init(&self, dir: PathBuf) -> Result<VWorld, Violation> {
        let mut w = World::new(dir, self.cfg.clone())?;
        for op in &self.prefix {
            w.apply(op).map_err(|v| Violation::new("harness", format!("prefix: {}", v.detail)))?;
        }
        w.wit = Witness::default();
        Ok(VWorld { views: vec![], w, anomalies: 0 })
    }

    fn apply(&self, vw: &mut VWorld, op: &VOp) -> Result<(), Violation> {
        let e = |what: &str, e: fjall::Error| Violation::new("view.read_error", format!("{what}: {e:?}"));
        match op {
            VOp::Base(o) => {
                if matches!(o, Op::Reopen) {
                    vw.views.clear();
                }
                vw.w.apply(o)?;
            }
            VOp::SnapOpen => {
                let instant = vw.w.dbi().visible_seqno();
                let s = vw.w.dbi().snapshot();
                if s.seqno() != instant {
                    return Err(Violation::new("harness", "instant mismatch"));
                }
                vw.views.push(Some(View { kind: ViewKind::Snap(s), frozen: vw.w.model.clone(), instant, wrote_a: None }));
            }
            VOp::SnapClone(i) => {
                let (c, frozen, instant) = match vw.views[*i as usize].as_ref() {
                    Some(View { kind: ViewKind::Snap(s), frozen, instant, .. }) => (s.clone(), frozen.clone(), *instant),
                    _ => return Err(Violation::new("harness", "clone of non-snapshot")),
                };
                vw.views.push(Some(View { kind: ViewKind::Snap(c), frozen, instant, wrote_a: None }));
            }
            VOp::IterOpen(kind) | VOp::IterOpenVia(_, kind) => {
                let h = vw.w.ks[&0].clone();
                let (it, base, instant) = match op {
                    VOp::IterOpen(_) => {
                        let instant = vw.w.dbi().visible_seqno();
                        let it = match kind {
                            0 => h.iter(),
                            1 => h.range::<&[u8], _>(b"a".as_slice()..),
                            _ => h.prefix(b"a"),
                        };
                        (it, vw.w.model.get(&0).cloned().unwrap_or_default(), instant)
                    }
                    VOp::IterOpenVia(i, _) => match vw.views[*i as usize].as_ref() {
                        Some(View { kind: ViewKind::Snap(s), frozen, instant, .. }) => {
                            let it = match kind {
                                0 => s.iter(&h),
                                1 => s.range::<&[u8], _>(&h, b"a".as_slice()..),
                                _ => s.prefix(&h, b"a"),
                            };
                            (it, frozen.get(&0).cloned().unwrap_or_default(), *instant)
                        }
                        _ => return Err(Violation::new("harness", "iter via non-snapshot")),
                    },
                    _ => unreachable!(),
                };
                let expected = frozen_range(&base, *kind);
                let back = expected.len();
                vw.views.push(Some(View { kind: ViewKind::Iter { it, front: 0, back, expected }, frozen: BTreeMap::new(), instant, wrote_a: None }));
            }
            VOp::IterNext(i) | VOp::IterBack(i) => {
                let fwd = matches!(op, VOp::IterNext(_));
                let Some(View { kind: ViewKind::Iter { it, front, back, expected }, instant, .. }) = vw.views[*i as usize].as_mut() else {
                    return Err(Violation::new("harness", "next on non-iterator"));
                };
                let got = if fwd { it.next() } else { it.next_back() };
                let got = match got {
                    Some(g) => Some(g.into_inner().map(|(k, v)| (k.to_vec(), v.to_vec())).map_err(|x| e("iterator item", x))?),
                    None => None,
                };
                let want = if *front < *back {
                    if fwd {
                        *front += 1;
                        Some(expected[*front - 1].clone())
                    } else {
                        *back -= 1;
                        Some(expected[*back].clone())
                    }
                } else {
                    None
                };
                if got != want {
                    return Err(Violation::new(
                        "iterator.not_frozen",
                        format!(
                            "iterator v{i} (created at instant {instant}) {} yielded {:?}, expected {:?} (frozen range {:?})",
                            if fwd { "next" } else { "next_back" },
                            got.as_ref().map(|(k, v)| format!("{}={}", show_key(k), show_val(v))),
                            want.as_ref().map(|(k, v)| format!("{}={}", show_key(k), show_val(v))),
                            expected.iter().map(|(k, v)| format!("{}={}", show_key(k), show_val(v))).collect::<Vec<_>>()
                        ),
                    ));
                }
            }
            VOp::TxOpen => {
                let instant = vw.w.dbi().visible_seqno();
                let kind = match vw.w.db.as_ref().expect("db") {
                    Db::Plain(_) => return Err(Violation::new("harness", "tx on plain db")),
                    Db::Sw(d) => {
                        let tx = d.write_tx();
                        // the transaction borrows the database object owned by the world, which outlives the view
                        ViewKind::Sw(unsafe { std::mem::transmute::<SingleWriterWriteTx<'_>, SingleWriterWriteTx<'static>>(tx) })
                    }
                    Db::Occ(d) => ViewKind::Occ(d.write_tx().map_err(|x| e("write_tx", x))?),
                };
                vw.views.push(Some(View { kind, frozen: vw.w.model.clone(), instant, wrote_a: None }));
            }
            VOp::TxWrite(i, v) => {
                let val = value(*v);
                let Some(view) = vw.views[*i as usize].as_mut() else {
                    return Err(Violation::new("harness", "write on closed view"));
                };
                match &mut view.kind {
                    ViewKind::Sw(tx) => {
                        let Db::Sw(d) = vw.w.db.as_ref().expect("db") else { unreachable!() };
                        let h = d.keyspace("x", fjall::KeyspaceCreateOptions::default).map_err(|x| e("keyspace", x))?;
                        tx.insert(&h, "a", val.clone());
                    }
                    ViewKind::Occ(tx) => tx.insert(&vw.w.ks[&0], "a", val.clone()),
                    _ => return Err(Violation::new("harness", "write on non-tx")),
                }
                view.frozen.entry(0).or_default().insert(b"a".to_vec(), val.clone());
                view.wrote_a = Some(val);
            }
            VOp::TxCommit(i) => {
                let view = vw.views[*i as usize].take().ok_or_else(|| Violation::new("harness", "commit closed"))?;
                let wrote = view.wrote_a.clone();
                let committed = match view.kind {
                    ViewKind::Sw(tx) => {
                        tx.commit().map_err(|x| Violation::new("op_error", format!("{x:?}")))?;
                        true
                    }
                    ViewKind::Occ(tx) => tx.commit().map_err(|x| Violation::new("op_error", format!("{x:?}")))?.is_ok(),
                    _ => return Err(Violation::new("harness", "commit on non-tx")),
                };
                if committed {
                    if let Some(v) = wrote {
                        vw.w.model.get_mut(&0).unwrap().insert(b"a".to_vec(), v);
                    }
                }
            }
            VOp::TxRollback(i) => {
                let view = vw.views[*i as usize].take().ok_or_else(|| Violation::new("harness", "rollback closed"))?;
                match view.kind {
                    ViewKind::Sw(tx) => tx.rollback(),
                    ViewKind::Occ(tx) => tx.rollback(),
                    _ => return Err(Violation::new("harness", "rollback on non-tx")),
                }
            }
            VOp::Close(i) => {
                vw.views[*i as usize] = None;
            }
        }
        Ok(())
    }

    fn step_check(&self, vw: &mut VWorld) -> Result<(), Violation> {
        vw.check_views(Probe::Lite)?;
        if let Some(a) = vw.tracker_anomaly() {
            vw.anomalies += 1;
            if self.amplify {
                // is the anomaly harmful? drive garbage collection and look again
                vw.amplify()?;
                let r = std::panic::catch_unwind(std::panic::AssertUnwindSafe(|| vw.check_views(Probe::Lite)));
                match r {
                    Ok(Ok(_)) => {}
                    Ok(Err(v)) => return Err(Violation::new("view.lost_after_gc", format!("{a}; after overwrite+flush+compaction: {}", v.detail))),
                    Err(_) => return Err(Violation::new("view.panics_after_gc", format!("{a}; after overwrite+flush+compaction a read on the live view panicked: {}", take_panic_msg()))),
                }
            }
        }
        Ok(())
    }

    fn check(&self, vw: &mut VWorld) -> Result<Vec<u64>, Violation> {
        let mut d = vw.w.check_all(Probe::Lite)?;
        d.extend(vw.check_views(Probe::Full)?);
        d.push(vw.live() as u64);
        if self.amplify && vw.live() > 0 {
            // whatever maintenance the future brings, the live views stay what they are: overwrite every key twice,
            // rotate, flush, compact (the program itself is over: the world is discarded afterwards)
            vw.amplify()?;
            let r = std::panic::catch_unwind(std::panic::AssertUnwindSafe(|| vw.check_views(Probe::Lite)));
            match r {
                Ok(Ok(_)) => {}
                Ok(Err(v)) => return Err(Violation::new("view.changed_by_later_maintenance", format!("after overwrite+flush+compaction of every keyspace: {}", v.detail))),
                Err(_) => return Err(Violation::new("view.panics_after_later_maintenance", format!("after overwrite+flush+compaction of every keyspace a read on the live view panicked: {}", take_panic_msg()))),
            }
        }
        Ok(d)
    }

    fn enabled(&self, vw: &VWorld, len: usize) -> Vec<VOp> {
        let base = SeqProp::new("C05", self.cfg.clone(), self.alpha.clone());
        let mut ops: Vec<VOp> = base.enabled(&vw.w, len).into_iter().map(VOp::Base).collect();
        let live = vw.live();
        let has_sw_tx = vw.views.iter().flatten().any(|v| matches!(v.kind, ViewKind::Sw(_)));
        if has_sw_tx {
            // a live single-writer transaction holds the writer lock only for other transactions; plain writes go on
        }
        if live < self.max_views {
            ops.push(VOp::SnapOpen);
            if self.iters {
                for k in 0..3 {
                    ops.push(VOp::IterOpen(k));
                }
            }
            if self.txs && vw.w.cfg.kind != DbKind::Plain && !(vw.w.cfg.kind == DbKind::SingleWriter && has_sw_tx) {
                ops.push(VOp::TxOpen);
            }
        }
        for (i, v) in vw.views.iter().enumerate() {
            let Some(v) = v else { continue };
            let i = i as u8;
            match &v.kind {
                ViewKind::Snap(_) => {
                    if live < self.max_views {
                        ops.push(VOp::SnapClone(i));
                        if self.iters {
                            ops.push(VOp::IterOpenVia(i, 0));
                        }
                    }
                }
                ViewKind::Iter { .. } => {
                    ops.push(VOp::IterNext(i));
                    ops.push(VOp::IterBack(i));
                }
                ViewKind::Sw(_) | ViewKind::Occ(_) => {
                    ops.push(VOp::TxWrite(i, 1));
                    ops.push(VOp::TxCommit(i));
                    ops.push(VOp::TxRollback(i));
                }
            }
            ops.push(VOp::Close(i));
        }
        // a live single-writer transaction blocks Op::Tx (would deadlock on the writer lock)
        if has_sw_tx {
            ops.retain(|o| !matches!(o, VOp::Base(Op::Tx(_))));
        }
        // reopen needs every view closed first
        if live > 0 {
            ops.retain(|o| !matches!(o, VOp::Base(Op::Reopen)));
        }
        ops
    }

    fn absorb(&self, vw: &VWorld, s: &mut Witness) {
        s.add(&vw.w.wit);
        s.shadow += vw.anomalies;
    }

    fn kind(&self, op: &VOp) -> String {
        match op {
            VOp::Base(o) => SeqProp::new("C05", self.cfg.clone(), Alpha::empty()).kind(o),
            VOp::IterOpen(k) => format!("iter+:{}", ["iter", "range", "prefix"][*k as usize]),
            VOp::IterOpenVia(_, k) => format!("iter+via:{}", ["iter", "range", "prefix"][*k as usize]),
            other => other.to_string().split_whitespace().next().unwrap_or("").to_string(),
        }
    }
}

impl Drop for VWorld {
    fn drop(&mut self) {
        self.views.clear();
    }
}

fn alpha_small() -> Alpha {
    let mut a = Alpha::empty();
    a.ins = vec![(0, 0, 0), (0, 1, 1)];
    a.rem = vec![(0, 0)];
    a.rotate = vec![0];
    a.major = vec![0];
    a
}

pub struct VPass {
    pub name: &'static str,
    pub prop: ViewProp,
    pub depth: usize,
    pub min_depth: usize,
    pub secs: f64,
}

pub fn passes(tier: &str) -> Vec<VPass> {
    let d = Cfg { nks: 1, ..Cfg::default2() };
    let q = tier == "quick";
    let vp = |cfg: Cfg, pfx: &str, alpha: Alpha, max_views, iters, txs, amplify| ViewProp { cfg, prefix: prefix(pfx), alpha, max_views, iters, txs, amplify };
    let mut wide = alpha_small();
    wide.clear = vec![0];
    wide.ingest = vec![(0, vec![(0, Some(1))])];
    let mut v = vec![
        VPass { name: "snapshots+iterators", prop: vp(d.clone(), "", alpha_small(), 2, true, false, true), depth: if q { 5 } else { 6 }, min_depth: 4, secs: if q { 8.0 } else { 300.0 } },
        VPass { name: "snapshots/clear+ingest+maintenance", prop: vp(d.clone(), "a_in_last_level", wide.clone(), 2, false, false, true), depth: if q { 5 } else { 6 }, min_depth: 4, secs: if q { 6.0 } else { 200.0 } },
        VPass { name: "optimistic-tx views (gc amplifier)", prop: vp(Cfg { kind: DbKind::Optimistic, ..d.clone() }, "", { let mut a = Alpha::empty(); a.ins = vec![(0, 1, 1)]; a.rotate = vec![0]; a }, 2, false, true, true), depth: if q { 6 } else { 8 }, min_depth: 4, secs: if q { 5.0 } else { 400.0 } },
        VPass { name: "single-writer-tx views", prop: vp(Cfg { kind: DbKind::SingleWriter, ..d.clone() }, "", alpha_small(), 2, false, true, true), depth: if q { 5 } else { 7 }, min_depth: 3, secs: if q { 5.0 } else { 300.0 } },
    ];
    if !q {
        v.push(VPass { name: "3 views/iterators via snapshots", prop: vp(d.clone(), "tomb_over_value", alpha_small(), 3, true, false, true), depth: 5, min_depth: 3, secs: 300.0 });
        v.push(VPass { name: "blob", prop: vp(Cfg { blob: true, ..d.clone() }, "blob_overwritten", { let mut a = alpha_small(); a.ins = vec![(0, 2, 3), (0, 2, 0)]; a }, 2, true, false, true), depth: 5, min_depth: 3, secs: 200.0 });
    }
    v
}

pub fn run(tier: &str) -> i32 {
    let t0 = Instant::now();
    let mut o = Outcome::new("C05", tier, "model_checking");
    let mut recs = vec![];
    let mut all_outcomes = std::collections::HashSet::new();
    let mut carry = Duration::ZERO;
    let mut exhaustive = true;
    for pass in passes(tier) {
        let budget = Duration::from_secs_f64(pass.secs) + carry;
        let t = Instant::now();
        let hard_min = pass.min_depth.min(pass.depth.saturating_sub(2)).max(1);
        let rep = explore_min(&pass.prop, pass.depth, hard_min, t + budget, threads(), &merge_wit);
        carry = budget.saturating_sub(t.elapsed());
        o.cov_add("states", rep.programs);
        o.cov_add("transitions", rep.transitions.max(1));
        o.cov_add("traces_validated_against_impl", rep.programs);
        all_outcomes.extend(rep.outcomes.iter().copied());
        for s in rep.samples.iter().take(2) {
            o.sample(json!({"pass": pass.name, "program": s}));
        }
        recs.push(json!({"pass": pass.name, "cfg": pass.prop.cfg.name(), "depth_requested": pass.depth, "depth_completed_exhaustively": rep.completed_depth, "capped_by_time": rep.capped, "programs_per_depth": rep.per_level, "distinct_outcomes": rep.outcomes.len(), "tracker_anomalies_seen": rep.stats.shadow, "raw_violating_programs": rep.violations.len(), "wall_s": rep.wall.as_secs_f64()}));
        if rep.capped {
            exhaustive = false;
        }
        if rep.completed_depth < pass.min_depth.min(pass.depth.saturating_sub(2)).max(1) {
            o.machinery_errors.push(format!("pass {} completed only depth {} < minimum {}", pass.name, rep.completed_depth, pass.min_depth));
        }
        if !rep.violations.is_empty() {
            for (sig, f) in triage(&pass.prop, rep.violations) {
                let mut same = 0;
                for _ in 0..2 {
                    if let RunResult::Bad(v) = run_program(&pass.prop, &f.program, 0, None) {
                        if v.clause == f.v.clause {
                            same += 1;
                        }
                    }
                }
                if same != 2 {
                    o.machinery_errors.push(format!("replay divergence for [{}]", prog_str(&f.program)));
                    continue;
                }
                let mut program: Vec<String> = pass.prop.prefix.iter().map(|x| x.to_string()).collect();
                let plen = program.len();
                program.extend(f.program.iter().map(|x| x.to_string()));
                o.findings.push(Finding { sig, engine: "E1-seqcheck(views)".into(), variant: json!({"pass": pass.name, "prefix_len": plen}), program, clause: f.v.clause.clone(), detail: f.v.detail.clone() });
            }
        }
    }
    o.cov("passes", json!(recs));
    o.cov("distinct_outcomes", json!(all_outcomes.len()));
    o.cov("exhaustive", json!(exhaustive));
    // E3 part
    crate::e3::fold_e3(&mut o, "C05", tier, &crate::e3::with_variants(crate::props::c05e3::bodies(tier), tier), "e3_");
    o.cov("rule", json!("E1: every enabled program up to the per-pass depth over writes/removes/clear/ingestion/rotation/every queued worker message/major compaction interleaved with view operations {open snapshot, clone it, open Keyspace::iter/range/prefix and the snapshot variants, advance an iterator from either end, begin a write transaction of either kind (also two at one instant), write and commit it, close any view in any order}, at most 2-3 live views; after EVERY step every live view's full observation must equal the model clone frozen at its creation (plus its own writes), iterators must yield exactly the frozen range no matter when they are advanced, no read may error or panic; the snapshot tracker's table is monitored, and whenever a live instant is no longer registered (or the GC watermark passed it) a fixed garbage-collecting continuation (overwrite all, flush, compact) is run and the views are observed again. E3: see e3_bodies."));
    o.assumptions = vec![
        "at most 3 simultaneous views; sequentially consistent exploration in the E3 part".into(),
        "the tracker monitor only triggers the garbage-collecting continuation; a verdict always rests on what a read on the live view returns".into(),
    ];
    if all_outcomes.len() <= 1 {
        o.machinery_errors.push("vacuous".into());
    }
    o.wall_s = t0.elapsed().as_secs_f64();
    finish(o)
}

pub fn replay(v: &serde_json::Value) -> i32 {
    if v["engine"] == "E3-schedcheck" {
        let tier = v["variant"]["tier"].as_str().unwrap_or("quick");
        let bi = v["variant"]["body_index"].as_u64().unwrap_or(0) as usize;
        let choices: Vec<usize> = v["variant"]["choices"].as_array().map(|a| a.iter().filter_map(|c| c.as_u64().map(|c| c as usize)).collect()).unwrap_or_default();
        return match crate::e3::with_variants(crate::props::c05e3::bodies(tier), tier).get(bi) {
            Some(b) => crate::e3::replay_schedule(&*b.body, &choices),
            None => 2,
        };
    }
    let name = v["variant"]["pass"].as_str().unwrap_or("");
    let plen = v["variant"]["prefix_len"].as_u64().unwrap_or(0) as usize;
    let program: Vec<String> = v["program"].as_array().map(|a| a.iter().filter_map(|s| s.as_str().map(String::from)).collect()).unwrap_or_default();
    for tier in ["quick", "thorough"] {
        if let Some(p) = passes(tier).into_iter().find(|p| p.name == name) {
            let ops: Result<Vec<VOp>, String> = program.iter().skip(plen).map(|s| VOp::parse(s)).collect();
            let Ok(ops) = ops else { return 2 };
            return match run_program(&p.prop, &ops, 0, None) {
                RunResult::Ok { .. } => {
                    println!("replay: program satisfied the oracle");
                    0
                }
                RunResult::Bad(v) => {
                    println!("replay: VIOLATION clause={} :: {}", v.clause, v.detail);
                    1
                }
            };
        }
    }
    2
}
