//! C05 (E3 part): readers holding views against writers and fjall's own workers.

use crate::e3::*;
use crate::props::c06::{Act, Finals, Kind, VisBody};
use std::sync::Arc;

pub fn bodies(tier: &str) -> Vec<BodySpec> {
    // The C06 body machinery records what snapshots see; for C05 the interesting bodies are the ones in which a
    // reader reads twice through the same snapshot while writers and workers run (repeatable read).
    use Act::*;
    let q = tier == "quick";
    let b = |body: VisBody, bound: usize, secs: f64| BodySpec { body: Arc::new(body), bound, secs };
    let init = vec![("x", "a", "0"), ("x", "b", "0")];
    vec![
        b(VisBody { name: "repeatable-read|ingestion|writer [focus:write-path]", kind: Kind::Plain, workers: 0, keyspaces: vec!["x"], initial: init.clone(), prerotate: vec![], threads: vec![vec![Ingest("x", vec![("a", "5"), ("b", "5")])], vec![Ins(("x", "ab", "1"))], vec![SnapHold(vec![("x", "ab"), ("x", "a")])]], finals: Finals::None }, 2, if q { 4.0 } else { 300.0 }),
        b(VisBody { name: "repeatable-read|ingestion|writer", kind: Kind::Plain, workers: 0, keyspaces: vec!["x"], initial: init.clone(), prerotate: vec![], threads: vec![vec![Ingest("x", vec![("a", "5"), ("b", "5")])], vec![Ins(("x", "ab", "1"))], vec![SnapHold(vec![("x", "ab"), ("x", "a")])]], finals: Finals::None }, 2, if q { 3.0 } else { 300.0 }),
        b(VisBody { name: "repeatable-read|batch committer|second writer", kind: Kind::Plain, workers: 0, keyspaces: vec!["x", "z"], initial: init.clone(), prerotate: vec![], threads: vec![vec![SnapReadTwice(vec![("x", "a"), ("x", "b")])], vec![Batch(vec![("x", "a", "1"), ("x", "b", "1")])], vec![Ins(("z", "a", "9"))]], finals: Finals::None }, 2, if q { 4.0 } else { 300.0 }),
        b(VisBody { name: "repeatable-read|batch committer|second writer [reopened]", kind: Kind::Plain, workers: 0, keyspaces: vec!["x", "z"], initial: init.clone(), prerotate: vec![], threads: vec![vec![SnapReadTwice(vec![("x", "a"), ("x", "b")])], vec![Batch(vec![("x", "a", "1"), ("x", "b", "1")])], vec![Ins(("z", "a", "9"))]], finals: Finals::None }, 2, if q { 3.0 } else { 200.0 }),
        b(VisBody { name: "repeatable-read|writer|worker(tiny flush+compact)", kind: Kind::Plain, workers: 1, keyspaces: vec!["x"], initial: init.clone(), prerotate: vec!["x"], threads: vec![vec![SnapReadTwice(vec![("x", "a"), ("x", "b")])], vec![Ins(("x", "a", "1")), Rotate("x"), Ins(("x", "a", "2"))]], finals: Finals::None }, if q { 1 } else { 2 }, if q { 4.0 } else { 300.0 }),
        b(VisBody { name: "repeatable-read|occ commit of a sibling tx|rotation", kind: Kind::Occ, workers: 0, keyspaces: vec!["x"], initial: init.clone(), prerotate: vec![], threads: vec![vec![SnapReadTwice(vec![("x", "a"), ("x", "b")])], vec![Tx(vec![("x", "a", "1")]), Rotate("x"), Tx(vec![("x", "b", "1")]), Rotate("x"), Major("x")]], finals: Finals::None }, if q { 1 } else { 2 }, if q { 3.0 } else { 300.0 }),
    ]
}
