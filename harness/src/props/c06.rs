//! C06 — a committed batch becomes visible to readers atomically (E3).

use crate::e3::*;
use crate::report::*;
use crate::sched::*;
use crate::world::Violation;
use fjall::{Database, Keyspace, KeyspaceCreateOptions, OptimisticTxDatabase, Readable, SingleWriterTxDatabase};
use serde_json::json;
use std::collections::BTreeMap;
use std::path::Path;
use std::sync::atomic::{AtomicUsize, Ordering};
use std::sync::{Arc, Mutex};
use std::time::Instant;

type It = (&'static str, &'static str, &'static str); // keyspace, key, value

#[derive(Clone, Debug)]
pub enum Act {
    Batch(Vec<It>),
    /// committed transaction (optimistic or single-writer database kinds)
    Tx(Vec<It>),
    Ins(It),
    /// snapshot (Database::snapshot / read_tx) reading the listed keys
    SnapRead(Vec<(&'static str, &'static str)>),
    /// snapshot read of the keys, a scheduling point, then the same reads again through the same snapshot (C05)
    SnapReadTwice(Vec<(&'static str, &'static str)>),
    /// snapshot read of the keys; the snapshot stays open and is read again after every thread has finished (C05)
    SnapHold(Vec<(&'static str, &'static str)>),
    /// one forward scan over a keyspace
    Scan(&'static str),
    /// `len()` of a keyspace (a scan that only counts): must count whole batches only
    Len(&'static str),
    Rotate(&'static str),
    Clear(&'static str),
    CreateKs(&'static str),
    DeleteKs(&'static str),
    Ingest(&'static str, Vec<(&'static str, &'static str)>),
    Major(&'static str),
}

#[derive(Clone, Copy, PartialEq, Debug)]
pub enum Kind {
    Plain,
    Sw,
    Occ,
}

pub struct VisBody {
    pub name: &'static str,
    pub kind: Kind,
    pub workers: usize,
    /// keyspaces created up front
    pub keyspaces: Vec<&'static str>,
    pub initial: Vec<It>,
    /// keyspaces rotated (sealed memtable + queued flush) before the threads start
    pub prerotate: Vec<&'static str>,
    pub threads: Vec<Vec<Act>>,
    /// extra clauses evaluated on the final state
    pub finals: Finals,
}

/// bodies whose name contains "[jrot]" run with the journal-position override on (every flush rotates the journal)
fn wants_jrot(name: &str) -> bool {
    name.contains("[jrot]")
}

#[derive(Clone, Copy, PartialEq, Debug, Default)]
pub enum Finals {
    #[default]
    None,
    /// C01/C14: for every key, the point read through the handle equals what a scan shows
    PointVsScan,
    /// C04: after dropping every handle, reopening shows exactly the content seen right before the close
    ReopenSame,
    /// C02: a process-crash image taken once every thread has been acknowledged recovers exactly the acknowledged state
    CrashImage,
    /// C03: in such an image every batch/transaction is present entirely or not at all
    CrashAtomic,
}

enum AnyDb {
    Plain(Database),
    Sw(SingleWriterTxDatabase),
    Occ(OptimisticTxDatabase),
}
impl AnyDb {
    fn inner(&self) -> &Database {
        match self {
            AnyDb::Plain(d) => d,
            AnyDb::Sw(d) => d.inner(),
            AnyDb::Occ(d) => d.inner(),
        }
    }
    fn clone_db(&self) -> AnyDb {
        match self {
            AnyDb::Plain(d) => AnyDb::Plain(d.clone()),
            AnyDb::Sw(d) => AnyDb::Sw(d.clone()),
            AnyDb::Occ(d) => AnyDb::Occ(d.clone()),
        }
    }
}

/// What a reader saw: (thread, description of the read, list of (ks,key,value-or-"-"))
type Seen = (usize, String, Vec<(String, String, String)>);

fn val(r: fjall::Result<Option<fjall::UserValue>>) -> String {
    match r {
        Ok(Some(v)) => String::from_utf8_lossy(&v).into_owned(),
        Ok(None) => "-".into(),
        Err(e) => format!("ERR({e:?})"),
    }
}

impl Body for VisBody {
    fn name(&self) -> String {
        self.name.to_string()
    }

    fn launch(&self, dir: &Path) -> Launched {
        let open = |workers: usize| match self.kind {
            Kind::Plain => AnyDb::Plain(Database::builder(dir).worker_threads_unchecked(workers).open().expect("open")),
            Kind::Sw => AnyDb::Sw(SingleWriterTxDatabase::builder(dir).worker_threads_unchecked(workers).open().expect("open")),
            Kind::Occ => AnyDb::Occ(OptimisticTxDatabase::builder(dir).worker_threads_unchecked(workers).open().expect("open")),
        };
        // bodies tagged "[reopened]" run on a recovered database (Database::recover builds the shared counters and the
        // snapshot tracker on another path than create_new): prepared without workers, closed, opened again
        let reopened = self.name.contains("[reopened]");
        let mut db = open(if reopened { 0 } else { self.workers });
        let mut kss: BTreeMap<&'static str, Keyspace> = BTreeMap::new();
        for n in &self.keyspaces {
            kss.insert(n, db.inner().keyspace(n, KeyspaceCreateOptions::default).expect("ks"));
        }
        for (ks, k, v) in &self.initial {
            kss[ks].insert(*k, *v).expect("prep");
        }
        if reopened {
            kss.clear();
            drop(db);
            db = open(self.workers);
            for n in &self.keyspaces {
                kss.insert(n, db.inner().keyspace(n, KeyspaceCreateOptions::default).expect("ks"));
            }
        }
        for ks in &self.prerotate {
            kss[ks].rotate_memtable().expect("prep rotate");
        }
        crate::sched::GLOBAL_FAKE_JOURNAL_POS.store(if wants_jrot(self.name) { 65_000_000 } else { 0 }, Ordering::Relaxed);
        let seen: Arc<Mutex<Vec<Seen>>> = Arc::new(Mutex::new(vec![]));
        let errors: Arc<Mutex<Vec<String>>> = Arc::new(Mutex::new(vec![]));
        #[allow(clippy::type_complexity)]
        let held: Arc<Mutex<Vec<(fjall::Snapshot, Vec<(&'static str, &'static str)>, Vec<(String, String, String)>)>>> = Arc::new(Mutex::new(vec![]));
        let done = Arc::new(AtomicUsize::new(0));
        let n = self.threads.len();
        let mut handles = vec![];
        const NAMES: [&str; 4] = ["t0", "t1", "t2", "t3"];
        for (tid, acts) in self.threads.iter().enumerate() {
            let db = db.clone_db();
            let kss = kss.clone();
            let acts = acts.clone();
            let seen = seen.clone();
            let errors = errors.clone();
            let held = held.clone();
            let done = done.clone();
            handles.push(spawn_client(NAMES[tid], move || {
                let mut kss = kss;
                for act in acts {
                    client_point("client.call");
                    let r: Result<(), String> = (|| {
                        match &act {
                            Act::Batch(items) => {
                                let mut b = db.inner().batch();
                                for (ks, k, v) in items {
                                    if *v == "-" { b.remove(&kss[ks], *k) } else { b.insert(&kss[ks], *k, *v) }
                                }
                                b.commit().map_err(|e| format!("{e:?}"))?;
                            }
                            Act::Tx(items) => match &db {
                                AnyDb::Plain(_) => return Err("tx on plain".into()),
                                AnyDb::Sw(d) => {
                                    let mut tx = d.write_tx();
                                    for (ks, k, v) in items {
                                        let h = d.keyspace(ks, KeyspaceCreateOptions::default).map_err(|e| format!("{e:?}"))?;
                                        if *v == "-" { tx.remove(&h, *k) } else { tx.insert(&h, *k, *v) }
                                    }
                                    tx.commit().map_err(|e| format!("{e:?}"))?;
                                }
                                AnyDb::Occ(d) => {
                                    let mut tx = d.write_tx().map_err(|e| format!("{e:?}"))?;
                                    for (ks, k, v) in items {
                                        if *v == "-" { tx.remove(&kss[ks], *k) } else { tx.insert(&kss[ks], *k, *v) }
                                    }
                                    tx.commit().map_err(|e| format!("{e:?}"))?.map_err(|_| "conflict".to_string())?;
                                }
                            },
                            // value "-" = remove
                            Act::Ins((ks, k, v)) => if *v == "-" { kss[ks].remove(*k) } else { kss[ks].insert(*k, *v) }.map_err(|e| format!("{e:?}"))?,
                            Act::SnapRead(keys) => {
                                let snap = db.inner().snapshot();
                                let mut out = vec![];
                                for (ks, k) in keys {
                                    client_point("client.snapread");
                                    out.push((ks.to_string(), k.to_string(), val(snap.get(&kss[ks], *k))));
                                }
                                seen.lock().unwrap().push((tid, "snapshot".into(), out));
                            }
                            Act::SnapReadTwice(keys) => {
                                let snap = db.inner().snapshot();
                                let mut first = vec![];
                                for (ks, k) in keys {
                                    first.push((ks.to_string(), k.to_string(), val(snap.get(&kss[ks], *k))));
                                }
                                for _ in 0..3 {
                                    client_point("client.between_reads");
                                }
                                let mut second = vec![];
                                for (ks, k) in keys {
                                    client_point("client.snapread");
                                    second.push((ks.to_string(), k.to_string(), val(snap.get(&kss[ks], *k))));
                                }
                                if first != second {
                                    return Err(format!("NOT-REPEATABLE first {first:?} second {second:?}"));
                                }
                                if first.iter().chain(second.iter()).any(|o| o.2.starts_with("ERR")) {
                                    return Err(format!("read error {first:?} {second:?}"));
                                }
                                seen.lock().unwrap().push((tid, "snapshot".into(), first));
                            }
                            Act::SnapHold(keys) => {
                                let snap = db.inner().snapshot();
                                let mut first = vec![];
                                for (ks, k) in keys {
                                    first.push((ks.to_string(), k.to_string(), val(snap.get(&kss[ks], *k))));
                                }
                                seen.lock().unwrap().push((tid, "snapshot".into(), first.clone()));
                                held.lock().unwrap().push((snap, keys.clone(), first));
                            }
                            Act::Scan(ks) => {
                                let mut out = vec![];
                                for g in kss[ks].iter() {
                                    let (k, v) = g.into_inner().map_err(|e| format!("{e:?}"))?;
                                    out.push((ks.to_string(), String::from_utf8_lossy(&k).into_owned(), String::from_utf8_lossy(&v).into_owned()));
                                }
                                seen.lock().unwrap().push((tid, "scan".into(), out));
                            }
                            Act::Len(ks) => {
                                let n = kss[ks].len().map_err(|e| format!("{e:?}"))?;
                                seen.lock().unwrap().push((tid, "len".into(), vec![(ks.to_string(), "#len".into(), n.to_string())]));
                            }
                            Act::Rotate(ks) => {
                                kss[ks].rotate_memtable().map_err(|e| format!("{e:?}"))?;
                            }
                            Act::Clear(ks) => kss[ks].clear().map_err(|e| format!("{e:?}"))?,
                            Act::CreateKs(name) => {
                                let h = db.inner().keyspace(name, KeyspaceCreateOptions::default).map_err(|e| format!("{e:?}"))?;
                                kss.insert(name, h);
                            }
                            Act::DeleteKs(ks) => {
                                let h = kss.remove(ks).ok_or("no handle")?;
                                db.inner().delete_keyspace(h).map_err(|e| format!("{e:?}"))?;
                            }
                            Act::Ingest(ks, items) => {
                                let mut ing = kss[ks].start_ingestion().map_err(|e| format!("{e:?}"))?;
                                for (k, v) in items {
                                    ing.write(*k, *v).map_err(|e| format!("{e:?}"))?;
                                }
                                ing.finish().map_err(|e| format!("{e:?}"))?;
                            }
                            Act::Major(ks) => kss[ks].major_compact().map_err(|e| format!("{e:?}"))?,
                        }
                        Ok(())
                    })();
                    if let Err(e) = r {
                        errors.lock().unwrap().push(format!("T{tid} {act:?}: {e}"));
                    }
                }
                drop(kss);
                drop(db);
                done.fetch_add(1, Ordering::SeqCst);
            }));
        }
        let final_state: Arc<Mutex<Vec<(String, String, String, String)>>> = Arc::new(Mutex::new(vec![]));
        {
            let done = done.clone();
            let final_state = final_state.clone();
            let finals = self.finals;
            let dirp = dir.to_path_buf();
            let held = held.clone();
            let errors = errors.clone();
            handles.push(spawn_client("closer", move || {
                client_block_until(&|| done.load(Ordering::SeqCst) == n, "closer.wait_clients");
                // snapshots that were kept open are read again: same answers as when they were opened
                for (snap, keys, first) in held.lock().unwrap().drain(..) {
                    let mut second = vec![];
                    for (ks, k) in &keys {
                        second.push((ks.to_string(), k.to_string(), val(snap.get(&kss[ks], *k))));
                    }
                    if first != second {
                        errors.lock().unwrap().push(format!("NOT-REPEATABLE snapshot instant {}: first {first:?}, after all threads finished {second:?}", snap.seqno()));
                    }
                }
                // (keyspace, key, point read, scan value) for every key of the universe
                let mut out = vec![];
                for (name, h) in &kss {
                    let mut scan: BTreeMap<String, String> = BTreeMap::new();
                    for g in h.iter() {
                        if let Ok((k, v)) = g.into_inner() {
                            scan.insert(String::from_utf8_lossy(&k).into_owned(), String::from_utf8_lossy(&v).into_owned());
                        }
                    }
                    for k in ["a", "ab", "b"] {
                        out.push((name.to_string(), k.to_string(), val(h.get(k)), scan.get(k).cloned().unwrap_or_else(|| "-".into())));
                    }
                }
                *final_state.lock().unwrap() = out;
                if finals == Finals::CrashImage || finals == Finals::CrashAtomic {
                    let _ = crate::crash::copy_tree(&dirp, &dirp.with_extension("img"));
                }
                drop(kss);
                drop(db);
            }));
        }
        let finals = self.finals;
        let kind = self.kind;
        // oracle data: per writer thread, its committed groups in order
        let mut groups: Vec<(usize, Vec<It>)> = vec![];
        for (tid, acts) in self.threads.iter().enumerate() {
            for a in acts {
                match a {
                    Act::Batch(items) | Act::Tx(items) => groups.push((tid, items.clone())),
                    Act::Ins(it) => groups.push((tid, vec![*it])),
                    _ => {}
                }
            }
        }
        let initial: BTreeMap<(String, String), String> = self.initial.iter().map(|(ks, k, v)| ((ks.to_string(), k.to_string()), v.to_string())).collect();
        let judge = Box::new(move |dir: &Path| -> Result<String, Violation> {
            let errs = errors.lock().unwrap().clone();
            if !errs.is_empty() {
                return Err(Violation::new("op_error", errs.join(" | ")));
            }
            let fin = final_state.lock().unwrap().clone();
            if finals != Finals::None {
                for (ks, k, point, scan) in &fin {
                    if point != scan {
                        return Err(Violation::new("point_read_vs_scan", format!("after all threads finished: {ks}.{k}: get = {point}, scan = {scan}")));
                    }
                }
            }
            if finals == Finals::CrashImage {
                let img = dir.with_extension("img");
                let rec = crate::crash::recover_and_observe_inproc(&img, &crate::world::Cfg::default2());
                let _ = std::fs::remove_dir_all(&img);
                match rec {
                    crate::crash::Recovered::Ok { content, .. } => {
                        for (ks, k, _point, scan) in &fin {
                            let got = content.get(ks).and_then(|m| m.get(k.as_bytes())).map(|v| String::from_utf8_lossy(v).into_owned()).unwrap_or_else(|| "-".into());
                            if &got != scan {
                                return Err(Violation::new("crash_image.acknowledged_write_missing", format!("every thread had been acknowledged; {ks}.{k} was {scan} but a crash image taken then recovers {got}")));
                            }
                        }
                    }
                    other => return Err(Violation::new("crash_image.recovery_failed", format!("{other:?}"))),
                }
            }
            if finals == Finals::CrashAtomic {
                let img = dir.with_extension("img");
                let rec = crate::crash::recover_and_observe_inproc(&img, &crate::world::Cfg::default2());
                let _ = std::fs::remove_dir_all(&img);
                match rec {
                    crate::crash::Recovered::Ok { content, .. } => {
                        for (_tid, items) in groups.iter().filter(|g| g.1.len() > 1) {
                            let vis: Vec<(String, bool)> = items
                                .iter()
                                .map(|(ks, k, v)| (format!("{ks}.{k}"), content.get(*ks).and_then(|m| m.get(k.as_bytes())).map(|x| x.as_slice() == v.as_bytes()).unwrap_or(false)))
                                .collect();
                            if vis.iter().any(|x| x.1) && vis.iter().any(|x| !x.1) {
                                return Err(Violation::new("crash_image.batch_partially_recovered", format!("a crash image taken after every thread finished recovers only part of the batch: {vis:?}")));
                            }
                        }
                    }
                    other => return Err(Violation::new("crash_image.recovery_failed", format!("{other:?}"))),
                }
            }
            if finals == Finals::ReopenSame {
                let _ = kind;
                let db = Database::builder(dir).worker_threads_unchecked(0).open().map_err(|e| Violation::new("reopen.open_error", format!("{e:?}")))?;
                for (ks, k, _point, scan) in &fin {
                    if !db.keyspace_exists(ks) {
                        continue;
                    }
                    let h = db.keyspace(ks, KeyspaceCreateOptions::default).map_err(|e| Violation::new("reopen.open_error", format!("{e:?}")))?;
                    let after = val(h.get(k));
                    if &after != scan {
                        return Err(Violation::new("reopen.content_differs", format!("{ks}.{k} was {scan} right before the close but is {after} after reopening")));
                    }
                }
            }
            let seen = seen.lock().unwrap().clone();
            let mut desc = vec![];
            // len(): the count must be the initial count plus, per writer, the net effect of a prefix of its groups
            for (tid, what, obs) in seen.iter().filter(|s| s.1 == "len") {
                let Some((ks, _, n)) = obs.first() else { continue };
                let n0 = initial.keys().filter(|(k, _)| k == ks).count() as i64;
                let mut allowed: std::collections::BTreeSet<i64> = [n0].into_iter().collect();
                let writers: std::collections::BTreeSet<usize> = groups.iter().map(|g| g.0).collect();
                for w in writers {
                    let mut present: std::collections::BTreeSet<String> = initial.keys().filter(|(k, _)| k == ks).map(|(_, key)| key.clone()).collect();
                    let base = present.len() as i64;
                    let mut deltas = vec![0i64];
                    for (_, items) in groups.iter().filter(|g| g.0 == w) {
                        for (iks, k, v) in items {
                            if iks == ks {
                                if *v == "-" {
                                    present.remove(*k);
                                } else {
                                    present.insert(k.to_string());
                                }
                            }
                        }
                        deltas.push(present.len() as i64 - base);
                    }
                    allowed = allowed.iter().flat_map(|a| deltas.iter().map(move |d| a + d)).collect();
                }
                let got: i64 = n.parse().unwrap_or(-1);
                if !allowed.contains(&got) {
                    return Err(Violation::new("torn_batch", format!("T{tid} {what}({ks}) = {got}, but whole batches only allow {allowed:?} (half of a batch was counted)")));
                }
            }
            for (tid, what, obs) in &seen {
                if what == "len" {
                    continue;
                }
                let get = |ks: &str, k: &str| -> Option<String> {
                    if what == "scan" {
                        // a scan lists present keys of one keyspace; absence = "-"
                        let scanned_ks = obs.first().map(|o| o.0.clone());
                        if obs.is_empty() || scanned_ks.as_deref() == Some(ks) || true {
                            return Some(obs.iter().find(|o| o.0 == ks && o.1 == k).map(|o| o.2.clone()).unwrap_or_else(|| "-".into()));
                        }
                    }
                    obs.iter().find(|o| o.0 == ks && o.1 == k).map(|o| o.2.clone())
                };
                // per group: all-or-nothing; per writer: commit order
                let mut per_writer_seen: BTreeMap<usize, Vec<bool>> = BTreeMap::new();
                // last-writer-wins state per key to decide what "new"/"old" mean: replay groups of each writer in order
                let mut cur = initial.clone();
                for (wtid, items) in &groups {
                    let mut states = vec![];
                    // the group's final value per key (a batch may write a key twice)
                    let mut fin: BTreeMap<(String, String), String> = BTreeMap::new();
                    for (ks, k, v) in items {
                        fin.insert((ks.to_string(), k.to_string()), v.to_string());
                    }
                    for ((ks, k), newv) in &fin {
                        let oldv = cur.get(&(ks.clone(), k.clone())).cloned().unwrap_or_else(|| "-".into());
                        if &oldv == newv {
                            continue; // cannot tell
                        }
                        let scan_of_other_ks = what == "scan" && obs.first().map(|o| &o.0 != ks).unwrap_or(false);
                        if scan_of_other_ks {
                            continue;
                        }
                        if let Some(g) = get(ks, k) {
                            if what != "scan" || obs.first().map(|o| &o.0 == ks).unwrap_or(true) {
                                if &g == newv {
                                    states.push(Some(true));
                                } else if g == oldv {
                                    states.push(Some(false));
                                } else {
                                    states.push(None); // a later group's value: means this group is seen (superseded)
                                }
                            }
                        }
                    }
                    let t = states.iter().filter(|s| **s == Some(true)).count();
                    let f = states.iter().filter(|s| **s == Some(false)).count();
                    if t > 0 && f > 0 {
                        return Err(Violation::new(
                            "torn_batch",
                            format!("T{tid} {what} saw {:?}: group {:?} of writer T{wtid} is partly visible", obs, items),
                        ));
                    }
                    if t + f > 0 {
                        per_writer_seen.entry(*wtid).or_default().push(t > 0);
                    }
                    for (k, v) in fin {
                        cur.insert(k, v);
                    }
                }
                for (w, seq) in &per_writer_seen {
                    // once a group is unseen, no later group of the same writer may be seen
                    if let Some(p) = seq.iter().position(|s| !*s) {
                        if seq[p..].iter().any(|s| *s) {
                            return Err(Violation::new(
                                "commit_order",
                                format!("T{tid} {what} saw {:?}: a later batch of writer T{w} is visible but an earlier one is not", obs),
                            ));
                        }
                    }
                }
                desc.push(format!("T{tid}:{what}:{}", obs.iter().map(|o| format!("{}.{}={}", o.0, o.1, o.2)).collect::<Vec<_>>().join(",")));
            }
            desc.sort();
            Ok(desc.join(";"))
        });
        Launched { handles, judge }
    }
}

pub fn bodies(tier: &str) -> Vec<BodySpec> {
    use Act::*;
    let q = tier == "quick";
    let b = |body: VisBody, bound: usize, secs: f64| BodySpec { body: Arc::new(body), bound, secs };
    let init = vec![("x", "a", "0"), ("y", "b", "0"), ("y", "a", "0"), ("x", "b", "0")];
    let writer = vec![Batch(vec![("x", "a", "1"), ("y", "b", "1")]), Batch(vec![("x", "a", "2"), ("y", "a", "2")])];
    let reader = vec![SnapRead(vec![("x", "a"), ("y", "b"), ("y", "a")])];
    let mut v = vec![
        b(VisBody { name: "batch|snapshot", kind: Kind::Plain, workers: 0, keyspaces: vec!["x", "y"], initial: init.clone(), prerotate: vec![], threads: vec![writer.clone(), reader.clone()], finals: Finals::None }, if q { 2 } else { 3 }, if q { 4.0 } else { 120.0 }),
        b(VisBody { name: "batch|snapshot|worker-flush-z", kind: Kind::Plain, workers: 1, keyspaces: vec!["x", "y", "z"], initial: { let mut i = init.clone(); i.push(("z", "a", "0")); i }, prerotate: vec!["z"], threads: vec![writer.clone(), reader.clone()], finals: Finals::None }, if q { 1 } else { 3 }, if q { 3.0 } else { 300.0 }),
        b(VisBody { name: "batch|snapshot|insert-other", kind: Kind::Plain, workers: 0, keyspaces: vec!["x", "y", "z"], initial: init.clone(), prerotate: vec![], threads: vec![vec![Batch(vec![("x", "a", "1"), ("x", "b", "1"), ("y", "b", "1")])], reader.clone(), vec![Ins(("z", "a", "9"))]], finals: Finals::None }, if q { 1 } else { 3 }, if q { 3.0 } else { 200.0 }),
        b(VisBody { name: "batch|scan|insert-other", kind: Kind::Plain, workers: 0, keyspaces: vec!["x", "z"], initial: vec![("x", "a", "0"), ("x", "b", "0")], prerotate: vec![], threads: vec![vec![Batch(vec![("x", "a", "1"), ("x", "b", "1")])], vec![Scan("x")], vec![Ins(("z", "a", "9"))]], finals: Finals::None }, if q { 2 } else { 3 }, if q { 4.0 } else { 120.0 }),
        b(VisBody { name: "occ-tx|snapshot|create-keyspace", kind: Kind::Occ, workers: 0, keyspaces: vec!["x", "y"], initial: init.clone(), prerotate: vec![], threads: vec![vec![Tx(vec![("x", "a", "1"), ("y", "b", "1")])], reader.clone(), vec![CreateKs("n")]], finals: Finals::None }, if q { 1 } else { 2 }, if q { 3.0 } else { 200.0 }),
        b(VisBody { name: "sw-tx|snapshot|rotate-x", kind: Kind::Sw, workers: 0, keyspaces: vec!["x", "y"], initial: init.clone(), prerotate: vec![], threads: vec![vec![Tx(vec![("x", "a", "1"), ("y", "b", "1")])], reader.clone(), vec![Rotate("x")]], finals: Finals::None }, if q { 1 } else { 2 }, if q { 3.0 } else { 200.0 }),
    ];
    v.push(b(VisBody { name: "batch|snapshot|worker-flush-z [focus:commit-path]", kind: Kind::Plain, workers: 1, keyspaces: vec!["x", "y", "z"], initial: { let mut i = init.clone(); i.push(("z", "a", "0")); i }, prerotate: vec!["z"], threads: vec![writer.clone(), reader.clone()], finals: Finals::None }, if q { 2 } else { 3 }, if q { 6.0 } else { 300.0 }));
    v.push(b(VisBody { name: "2 batch writers|snapshot [focus:commit-path]", kind: Kind::Plain, workers: 0, keyspaces: vec!["x", "y"], initial: init.clone(), prerotate: vec![], threads: vec![vec![Batch(vec![("x", "a", "1"), ("y", "b", "1")])], vec![Batch(vec![("x", "b", "1"), ("y", "a", "1")])], reader.clone()], finals: Finals::None }, if q { 2 } else { 3 }, if q { 5.0 } else { 300.0 }));
    v.push(b(VisBody { name: "sw-tx same key in two keyspaces|snapshot", kind: Kind::Sw, workers: 0, keyspaces: vec!["x", "y"], initial: init.clone(), prerotate: vec![], threads: vec![vec![Tx(vec![("x", "a", "1"), ("y", "a", "1")])], vec![SnapRead(vec![("x", "a"), ("y", "a")])]], finals: Finals::None }, 1, if q { 3.0 } else { 60.0 }));
    v.push(b(VisBody { name: "occ-tx same key in two keyspaces|snapshot", kind: Kind::Occ, workers: 0, keyspaces: vec!["x", "y"], initial: init.clone(), prerotate: vec![], threads: vec![vec![Tx(vec![("x", "b", "1"), ("y", "b", "1")])], vec![SnapRead(vec![("x", "b"), ("y", "b")])]], finals: Finals::None }, 1, if q { 3.0 } else { 60.0 }));
    v.push(b(VisBody { name: "batch of new keys|len|insert-other", kind: Kind::Plain, workers: 0, keyspaces: vec!["x", "z"], initial: vec![("x", "a", "0")], prerotate: vec![], threads: vec![vec![Batch(vec![("x", "ab", "1"), ("x", "b", "1")])], vec![Len("x"), Len("x")], vec![Ins(("z", "a", "9"))]], finals: Finals::None }, 2, if q { 3.0 } else { 120.0 }));
    v.push(b(VisBody { name: "batch|snapshot|ingest-into-empty-z", kind: Kind::Plain, workers: 0, keyspaces: vec!["x", "y", "z"], initial: init.clone(), prerotate: vec![], threads: vec![vec![Batch(vec![("x", "a", "1"), ("y", "b", "1")])], reader.clone(), vec![Ingest("z", vec![("a", "5")])]], finals: Finals::None }, 2, if q { 4.0 } else { 200.0 }));
    v.push(b(VisBody { name: "batch|snapshot [reopened]", kind: Kind::Plain, workers: 0, keyspaces: vec!["x", "y"], initial: init.clone(), prerotate: vec![], threads: vec![writer.clone(), reader.clone()], finals: Finals::None }, if q { 2 } else { 3 }, if q { 3.0 } else { 120.0 }));
    v.push(b(VisBody { name: "sw-tx|snapshot [reopened]", kind: Kind::Sw, workers: 0, keyspaces: vec!["x", "y"], initial: init.clone(), prerotate: vec![], threads: vec![vec![Tx(vec![("x", "a", "1"), ("y", "b", "1")])], reader.clone()], finals: Finals::None }, 2, if q { 2.0 } else { 60.0 }));
    v.push(b(VisBody { name: "occ-tx|snapshot [reopened]", kind: Kind::Occ, workers: 0, keyspaces: vec!["x", "y"], initial: init.clone(), prerotate: vec![], threads: vec![vec![Tx(vec![("x", "a", "1"), ("y", "b", "1")])], reader.clone()], finals: Finals::None }, 2, if q { 2.0 } else { 60.0 }));
    if !q {
        let z_init = { let mut i = init.clone(); i.push(("z", "a", "0")); i };
        v.push(b(VisBody { name: "batch|snapshot|clear-z", kind: Kind::Plain, workers: 0, keyspaces: vec!["x", "y", "z"], initial: z_init.clone(), prerotate: vec![], threads: vec![writer.clone(), reader.clone(), vec![Clear("z")]], finals: Finals::None }, 2, 200.0));
        v.push(b(VisBody { name: "batch|snapshot|delete-z", kind: Kind::Plain, workers: 0, keyspaces: vec!["x", "y", "z"], initial: z_init.clone(), prerotate: vec![], threads: vec![writer.clone(), reader.clone(), vec![DeleteKs("z")]], finals: Finals::None }, 2, 200.0));
        v.push(b(VisBody { name: "batch|snapshot|ingest-z", kind: Kind::Plain, workers: 0, keyspaces: vec!["x", "y", "z"], initial: z_init.clone(), prerotate: vec![], threads: vec![writer.clone(), reader.clone(), vec![Ingest("z", vec![("a", "5")])]], finals: Finals::None }, 2, 200.0));
        v.push(b(VisBody { name: "batch|snapshot|major-z", kind: Kind::Plain, workers: 1, keyspaces: vec!["x", "y", "z"], initial: z_init.clone(), prerotate: vec!["z"], threads: vec![writer.clone(), reader.clone(), vec![Major("z")]], finals: Finals::None }, 2, 300.0));
        v.push(b(VisBody { name: "2 batch writers|snapshot", kind: Kind::Plain, workers: 0, keyspaces: vec!["x", "y"], initial: init.clone(), prerotate: vec![], threads: vec![vec![Batch(vec![("x", "a", "1"), ("y", "b", "1")])], vec![Batch(vec![("x", "b", "1"), ("y", "a", "1")])], reader.clone()], finals: Finals::None }, 3, 300.0));
    }
    v
}

pub fn run(tier: &str) -> i32 {
    let t0 = Instant::now();
    let mut o = Outcome::new("C06", tier, "model_checking");
    o.cov("exhaustive", json!(true));
    fold_e3(&mut o, "C06", tier, &crate::e3::with_variants(bodies(tier), tier), "");
    o.cov("rule", json!("for each body (a writer committing batches/transactions over two keyspaces, a reader taking a snapshot and reading the touched keys or doing one scan, and a third party: fjall's own worker flushing another keyspace, an insert/clear/ingest/delete/create of another keyspace, a rotation) every schedule with at most `preemption_bound` preemptions at the hooked points is executed on the real code; every snapshot/scan must see each batch entirely or not at all and batches of one writer in commit order. states = schedules executed."));
    o.assumptions = vec![
        "calls into lsm-tree are atomic steps of the exploration (trusted base); the scheduling points are fjall-level operations: journal lock, seqno draw, each memtable apply of a batch, publish, snapshot open, worker message handling, flush registration".into(),
        "sequentially consistent exploration".into(),
    ];
    o.wall_s = t0.elapsed().as_secs_f64();
    finish(o)
}

pub fn replay(v: &serde_json::Value) -> i32 {
    let tier = v["variant"]["tier"].as_str().unwrap_or("quick");
    let bi = v["variant"]["body_index"].as_u64().unwrap_or(0) as usize;
    let choices: Vec<usize> = v["variant"]["choices"].as_array().map(|a| a.iter().filter_map(|c| c.as_u64().map(|c| c as usize)).collect()).unwrap_or_default();
    match crate::e3::with_variants(bodies(tier), tier).get(bi) {
        Some(b) => replay_schedule(&*b.body, &choices),
        None => 2,
    }
}
