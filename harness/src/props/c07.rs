//! C07 — optimistic transactions are serializable (E1: exhaustive histories of 2-3 transactions; E3 bodies).

use crate::core::*;
use crate::e3::*;
use crate::explore::fresh_dir;
use crate::par::par_for;
use crate::report::*;
use crate::sched::*;
use crate::seqrun::threads;
use crate::world::Violation;
use fjall::{KeyspaceCreateOptions, OptimisticTxDatabase, OptimisticTxKeyspace, OptimisticWriteTx, Readable};
use serde_json::json;
use std::collections::{BTreeMap, BTreeSet};
use std::ops::Bound;
use std::path::Path;
use std::sync::atomic::{AtomicUsize, Ordering};
use std::sync::{Arc, Mutex};
use std::time::{Duration, Instant};

type K = &'static str;

#[derive(Clone, Debug, PartialEq, Eq, PartialOrd, Ord, Hash)]
pub enum Step {
    Get(K),
    Contains(K),
    SizeOf(K),
    First,
    Last,
    Iter,
    /// range with (lower, upper) bound spec: "" = unbounded, "=k" included, "!k" excluded
    Range(K, K),
    Prefix(K),
    IsEmpty,
    Len,
    Insert(K, K),
    Remove(K),
    Take(K),
    /// fetch_update / update_fetch with closure: "append" (value+"+"), "delete"
    FetchUpdate(K, K),
    UpdateFetch(K, K),
    /// the same step on the second keyspace `y` (every other step addresses keyspace `x`)
    Y(Box<Step>),
}

impl Step {
    #[allow(dead_code)]
    fn is_write(&self) -> bool {
        match self {
            Step::Y(s) => s.is_write(),
            _ => matches!(self, Step::Insert(..) | Step::Remove(_) | Step::Take(_) | Step::FetchUpdate(..) | Step::UpdateFetch(..)),
        }
    }
    fn y(self) -> Step {
        Step::Y(Box::new(self))
    }
}

/// Reference state: keyspaces x and y.
pub type Maps = [Map; 2];

fn bound(s: &str) -> Bound<&[u8]> {
    if s.is_empty() {
        Bound::Unbounded
    } else if let Some(k) = s.strip_prefix('=') {
        Bound::Included(k.as_bytes())
    } else {
        Bound::Excluded(s[1..].as_bytes())
    }
}

fn in_bounds(k: &[u8], lo: &str, hi: &str) -> bool {
    (match bound(lo) {
        Bound::Unbounded => true,
        Bound::Included(b) => k >= b,
        Bound::Excluded(b) => k > b,
    }) && (match bound(hi) {
        Bound::Unbounded => true,
        Bound::Included(b) => k <= b,
        Bound::Excluded(b) => k < b,
    })
}

fn kvs(v: &[(Vec<u8>, Vec<u8>)]) -> String {
    v.iter().map(|(k, v)| format!("{}={}", String::from_utf8_lossy(k), String::from_utf8_lossy(v))).collect::<Vec<_>>().join(",")
}

fn closure_apply(c: &str, v: Option<&[u8]>) -> Option<Vec<u8>> {
    match c {
        "append" => Some([v.unwrap_or(b""), b"+"].concat()),
        _ => None,
    }
}

/// A step on the reference map (own writes visible); returns the rendered result.
fn model_step(ms: &mut Maps, s: &Step) -> String {
    match s {
        Step::Y(inner) => model_step_one(&mut ms[1], inner),
        _ => model_step_one(&mut ms[0], s),
    }
}

fn model_step_one(m: &mut Map, s: &Step) -> String {
    let opt = |v: Option<&Vec<u8>>| v.map(|x| String::from_utf8_lossy(x).into_owned()).unwrap_or_else(|| "-".into());
    let all = |m: &Map| m.iter().map(|(k, v)| (k.clone(), v.clone())).collect::<Vec<_>>();
    match s {
        Step::Get(k) => opt(m.get(k.as_bytes())),
        Step::Contains(k) => m.contains_key(k.as_bytes()).to_string(),
        Step::SizeOf(k) => m.get(k.as_bytes()).map(|v| v.len().to_string()).unwrap_or_else(|| "-".into()),
        Step::First => m.iter().next().map(|(k, v)| kvs(&[(k.clone(), v.clone())])).unwrap_or_else(|| "-".into()),
        Step::Last => m.iter().next_back().map(|(k, v)| kvs(&[(k.clone(), v.clone())])).unwrap_or_else(|| "-".into()),
        Step::Iter => kvs(&all(m)),
        Step::Range(lo, hi) => kvs(&all(m).into_iter().filter(|(k, _)| in_bounds(k, lo, hi)).collect::<Vec<_>>()),
        Step::Prefix(p) => kvs(&all(m).into_iter().filter(|(k, _)| k.starts_with(p.as_bytes())).collect::<Vec<_>>()),
        Step::IsEmpty => m.is_empty().to_string(),
        Step::Len => m.len().to_string(),
        Step::Insert(k, v) => {
            m.insert(k.as_bytes().to_vec(), v.as_bytes().to_vec());
            "ok".into()
        }
        Step::Remove(k) => {
            m.remove(k.as_bytes());
            "ok".into()
        }
        Step::Take(k) => opt(m.remove(k.as_bytes()).as_ref()),
        Step::FetchUpdate(k, c) | Step::UpdateFetch(k, c) => {
            let prev = m.get(k.as_bytes()).cloned();
            let new = closure_apply(c, prev.as_deref());
            match &new {
                Some(v) => {
                    m.insert(k.as_bytes().to_vec(), v.clone());
                }
                None => {
                    m.remove(k.as_bytes());
                }
            }
            if matches!(s, Step::FetchUpdate(..)) { opt(prev.as_ref()) } else { opt(new.as_ref()) }
        }
        Step::Y(_) => unreachable!("nested keyspace tag"),
    }
}

fn real_step(tx: &mut OptimisticWriteTx, kss: &[OptimisticTxKeyspace; 2], s: &Step) -> Result<String, String> {
    match s {
        Step::Y(inner) => real_step_one(tx, &kss[1], inner),
        _ => real_step_one(tx, &kss[0], s),
    }
}

fn real_step_one(tx: &mut OptimisticWriteTx, ks: &OptimisticTxKeyspace, s: &Step) -> Result<String, String> {
    let e = |x: fjall::Error| format!("{x:?}");
    let opt = |v: Option<fjall::UserValue>| v.map(|x| String::from_utf8_lossy(&x).into_owned()).unwrap_or_else(|| "-".into());
    let collect = |it: fjall::Iter| -> Result<String, String> {
        let mut v = vec![];
        for g in it {
            let (k, val) = g.into_inner().map_err(|x| format!("{x:?}"))?;
            v.push((k.to_vec(), val.to_vec()));
        }
        Ok(kvs(&v))
    };
    Ok(match s {
        Step::Get(k) => opt(tx.get(ks, k).map_err(e)?),
        Step::Contains(k) => tx.contains_key(ks, k).map_err(e)?.to_string(),
        Step::SizeOf(k) => tx.size_of(ks, k).map_err(e)?.map(|n| n.to_string()).unwrap_or_else(|| "-".into()),
        Step::First => match tx.first_key_value(ks) {
            Some(g) => {
                let (k, v) = g.into_inner().map_err(e)?;
                kvs(&[(k.to_vec(), v.to_vec())])
            }
            None => "-".into(),
        },
        Step::Last => match tx.last_key_value(ks) {
            Some(g) => {
                let (k, v) = g.into_inner().map_err(e)?;
                kvs(&[(k.to_vec(), v.to_vec())])
            }
            None => "-".into(),
        },
        Step::Iter => collect(tx.iter(ks))?,
        Step::Range(lo, hi) => collect(tx.range::<&[u8], _>(ks, (bound(lo), bound(hi))))?,
        Step::Prefix(p) => collect(tx.prefix(ks, p))?,
        Step::IsEmpty => tx.is_empty(ks).map_err(e)?.to_string(),
        Step::Len => tx.len(ks).map_err(e)?.to_string(),
        Step::Insert(k, v) => {
            tx.insert(ks, *k, *v);
            "ok".into()
        }
        Step::Remove(k) => {
            tx.remove(ks, *k);
            "ok".into()
        }
        Step::Take(k) => opt(tx.take(ks, *k).map_err(e)?),
        Step::FetchUpdate(k, c) => {
            let c = *c;
            opt(tx.fetch_update(ks, *k, move |v| closure_apply(c, v.map(|x| &**x)).map(|x| x.into())).map_err(e)?)
        }
        Step::UpdateFetch(k, c) => {
            let c = *c;
            opt(tx.update_fetch(ks, *k, move |v| closure_apply(c, v.map(|x| &**x)).map(|x| x.into())).map_err(e)?)
        }
        Step::Y(_) => return Err("nested keyspace tag".into()),
    })
}

#[derive(Clone, Debug, PartialEq, Eq, PartialOrd, Ord)]
pub enum Ev {
    Begin(usize),
    Step(usize, usize),
    Commit(usize),
    /// explicit `rollback()`
    Rollback(usize),
    /// the transaction object is dropped without commit
    Drop(usize),
    /// write + rotation of another keyspace: lets the snapshot tracker pull up its watermark and GC
    Maint,
}

#[derive(Clone, Debug)]
pub struct History {
    pub txs: Vec<Vec<Step>>,
    pub events: Vec<Ev>,
    /// run on a recovered database: the initial data is written, every handle dropped and the database opened again
    pub reopened: bool,
}

impl History {
    pub fn render(&self) -> Vec<String> {
        self.events
            .iter()
            .map(|e| match e {
                Ev::Begin(t) => format!("T{t}: begin"),
                Ev::Step(t, i) => format!("T{t}: {:?}", self.txs[*t][*i]),
                Ev::Commit(t) => format!("T{t}: commit"),
                Ev::Rollback(t) => format!("T{t}: rollback()"),
                Ev::Drop(t) => format!("T{t}: drop"),
                Ev::Maint => "maintenance: insert z.m, rotate z".to_string(),
            })
            .collect()
    }
}

fn initial_map() -> Maps {
    let mut m = Map::new();
    m.insert(b"a".to_vec(), b"0".to_vec());
    m.insert(b"b".to_vec(), b"0".to_vec());
    [m.clone(), m]
}

fn show_maps(m: &Maps) -> String {
    format!("x:{} y:{}", show_map(&m[0]), show_map(&m[1]))
}

/// Runs the history on the real database and judges serializability.
pub fn run_history(h: &History) -> Result<String, Violation> {
    let dir = fresh_dir();
    let r = std::panic::catch_unwind(std::panic::AssertUnwindSafe(|| -> Result<String, Violation> {
        let e = |x: fjall::Error| Violation::new("op_error", format!("{x:?}"));
        let mut db = OptimisticTxDatabase::builder(&dir).worker_threads_unchecked(0).open().map_err(e)?;
        let mut kss = [db.keyspace("x", KeyspaceCreateOptions::default).map_err(e)?, db.keyspace("y", KeyspaceCreateOptions::default).map_err(e)?];
        let mut z = db.keyspace("z", KeyspaceCreateOptions::default).map_err(e)?;
        for (i, m) in initial_map().iter().enumerate() {
            for (k, v) in m {
                kss[i].inner().insert(k, v).map_err(e)?;
            }
        }
        if h.reopened {
            drop(kss);
            drop(z);
            drop(db);
            db = OptimisticTxDatabase::builder(&dir).worker_threads_unchecked(0).open().map_err(e)?;
            kss = [db.keyspace("x", KeyspaceCreateOptions::default).map_err(e)?, db.keyspace("y", KeyspaceCreateOptions::default).map_err(e)?];
            z = db.keyspace("z", KeyspaceCreateOptions::default).map_err(e)?;
        }
        let n = h.txs.len();
        let mut live: Vec<Option<OptimisticWriteTx>> = (0..n).map(|_| None).collect();
        let mut results: Vec<Vec<String>> = vec![vec![]; n];
        let mut committed: Vec<Option<bool>> = vec![None; n];
        let mut begin_at = vec![0usize; n];
        let mut commit_at = vec![usize::MAX; n];
        for (pos, ev) in h.events.iter().enumerate() {
            match ev {
                Ev::Begin(t) => {
                    live[*t] = Some(db.write_tx().map_err(e)?);
                    begin_at[*t] = pos;
                }
                Ev::Step(t, i) => {
                    let tx = live[*t].as_mut().ok_or_else(|| Violation::new("harness", "step on closed tx"))?;
                    let r = real_step(tx, &kss, &h.txs[*t][*i]).map_err(|x| Violation::new("op_error", x))?;
                    results[*t].push(r);
                }
                Ev::Rollback(t) => {
                    let tx = live[*t].take().ok_or_else(|| Violation::new("harness", "rollback closed tx"))?;
                    tx.rollback();
                }
                Ev::Drop(t) => {
                    drop(live[*t].take());
                }
                Ev::Commit(t) => {
                    let tx = live[*t].take().ok_or_else(|| Violation::new("harness", "commit closed tx"))?;
                    committed[*t] = Some(tx.commit().map_err(e)?.is_ok());
                    commit_at[*t] = pos;
                }
                Ev::Maint => {
                    // (no worker threads: before the write stall of 4 sealed memtables is reached, the queued flushes are run)
                    {
                        use lsm_tree::AbstractTree;
                        while z.inner().tree.sealed_memtable_count() >= 3 {
                            let Some(idx) = db.inner().verif_pending().iter().position(|m| m.contains("Flush")) else { break };
                            db.inner().verif_step(idx).map_err(e)?;
                        }
                    }
                    z.inner().insert("m", "1").map_err(e)?;
                    z.inner().rotate_memtable().map_err(e)?;
                }
            }
        }
        drop(live);
        let final_state: Maps = [scan_ks(kss[0].inner()).map_err(|x| Violation::new("op_error", x))?, scan_ks(kss[1].inner()).map_err(|x| Violation::new("op_error", x))?];
        // brute-force serial orders of the committed transactions, consistent with real time
        let com: Vec<usize> = (0..n).filter(|t| committed[*t] == Some(true)).collect();
        // depth-first over serial orders, pruned as soon as a prefix contradicts real time or a recorded read (the
        // sequential filler transactions of the long histories leave only a handful of admissible orders)
        fn search(placed: &mut Vec<usize>, rest: &mut Vec<usize>, m: &Maps, h: &History, results: &[Vec<String>], begin_at: &[usize], commit_at: &[usize], final_state: &Maps) -> bool {
            if rest.is_empty() {
                return m == final_state;
            }
            for i in 0..rest.len() {
                let t = rest[i];
                // t may come next only if no unplaced transaction committed before t began
                if rest.iter().any(|u| *u != t && commit_at[*u] < begin_at[t]) {
                    continue;
                }
                let mut view = m.clone();
                if h.txs[t].iter().enumerate().any(|(k, s)| model_step(&mut view, s) != results[t][k]) {
                    continue;
                }
                rest.remove(i);
                placed.push(t);
                let ok = search(placed, rest, &view, h, results, begin_at, commit_at, final_state);
                placed.pop();
                rest.insert(i, t);
                if ok {
                    return true;
                }
            }
            false
        }
        let found = search(&mut vec![], &mut com.clone(), &initial_map(), h, &results, &begin_at, &commit_at, &final_state);
        if !found {
            let desc: Vec<String> = (0..n)
                .map(|t| format!("T{t}[{}] {:?} -> {:?}", match committed[t] { Some(true) => "committed", Some(false) => "conflict", None => "open" }, h.txs[t], results[t]))
                .collect();
            let aborted_effect = com.is_empty() && final_state != initial_map();
            return Err(Violation::new(
                if aborted_effect { "aborted_tx_has_effect" } else { "not_serializable" },
                format!("no serial order of the committed transactions (consistent with real time) explains the observations and the final state {}: {}", show_maps(&final_state), desc.join(" | ")),
            ));
        }
        let spurious = (0..n).filter(|t| committed[*t] == Some(false)).count();
        Ok(format!("committed={:?} conflicts={spurious} final={}", com, show_maps(&final_state)))
    }));
    let _ = std::fs::remove_dir_all(&dir);
    match r {
        Ok(r) => r,
        Err(_) => Err(Violation::new("panic", crate::explore::take_panic_msg())),
    }
}

fn permute(v: &mut Vec<usize>, k: usize, f: &mut dyn FnMut(&[usize])) {
    if k == v.len() {
        f(v);
        return;
    }
    for i in k..v.len() {
        v.swap(k, i);
        permute(v, k + 1, f);
        v.swap(k, i);
    }
}

fn reads(all: bool) -> Vec<Step> {
    let mut v = vec![Step::Get("a"), Step::Get("b"), Step::Iter, Step::Contains("a"), Step::SizeOf("a"), Step::Range("=a", "!b"), Step::Prefix("a"), Step::Len];
    if all {
        v.extend([
            Step::Get("ab"), Step::Contains("ab"), Step::SizeOf("b"), Step::First, Step::Last, Step::IsEmpty,
            Step::Range("", "=a"), Step::Range("!a", ""), Step::Range("=ab", "=b"), Step::Range("", "!ab"), Step::Range("!a", "!b"), Step::Range("=b", ""), Step::Range("!ab", "=b"),
            Step::Prefix("ab"), Step::Prefix("b"), Step::Prefix(""),
        ]);
    }
    v
}

fn writes(all: bool) -> Vec<Step> {
    let mut v = vec![Step::Insert("a", "1"), Step::Insert("b", "1"), Step::Remove("a"), Step::Insert("ab", "1")];
    if all {
        v.extend([Step::Remove("b"), Step::Take("a"), Step::FetchUpdate("a", "append"), Step::UpdateFetch("b", "append"), Step::FetchUpdate("ab", "append"), Step::UpdateFetch("a", "delete")]);
    }
    v
}

/// Orders of Begin/Commit events of n transactions with B0 < B1 < ... (transactions are interchangeable) and Bi < Ci.
fn bc_orders(n: usize) -> Vec<Vec<Ev>> {
    let mut out = vec![];
    fn rec(n: usize, begun: usize, open: &mut Vec<usize>, cur: &mut Vec<Ev>, out: &mut Vec<Vec<Ev>>) {
        if begun == n && open.is_empty() {
            out.push(cur.clone());
            return;
        }
        if begun < n {
            cur.push(Ev::Begin(begun));
            open.push(begun);
            rec(n, begun + 1, open, cur, out);
            open.pop();
            cur.pop();
        }
        for i in 0..open.len() {
            let t = open.remove(i);
            cur.push(Ev::Commit(t));
            rec(n, begun, open, cur, out);
            cur.pop();
            open.insert(i, t);
        }
    }
    rec(n, 0, &mut vec![], &mut vec![], &mut out);
    out
}

/// Places each transaction's steps right after its Begin (steps are local: they read the snapshot taken at Begin
/// and buffer writes; the full-interleaving family validates this reduction for two transactions).
fn with_steps(order: &[Ev], txs: &[Vec<Step>]) -> Vec<Ev> {
    let mut out = vec![];
    for e in order {
        out.push(e.clone());
        if let Ev::Begin(t) = e {
            for i in 0..txs[*t].len() {
                out.push(Ev::Step(*t, i));
            }
        }
    }
    out
}

/// All interleavings of the per-transaction event sequences (Begin, steps, Commit), T0 begins first.
fn full_interleavings(txs: &[Vec<Step>]) -> Vec<Vec<Ev>> {
    let seqs: Vec<Vec<Ev>> = txs
        .iter()
        .enumerate()
        .map(|(t, s)| {
            let mut v = vec![Ev::Begin(t)];
            v.extend((0..s.len()).map(|i| Ev::Step(t, i)));
            v.push(Ev::Commit(t));
            v
        })
        .collect();
    let mut out = vec![];
    fn rec(seqs: &[Vec<Ev>], idx: &mut Vec<usize>, cur: &mut Vec<Ev>, out: &mut Vec<Vec<Ev>>) {
        if idx.iter().zip(seqs).all(|(i, s)| *i == s.len()) {
            out.push(cur.clone());
            return;
        }
        for t in 0..seqs.len() {
            if idx[t] < seqs[t].len() {
                // symmetry: transaction t may begin only after all lower-numbered ones have begun
                if idx[t] == 0 && (0..t).any(|u| idx[u] == 0) {
                    continue;
                }
                cur.push(seqs[t][idx[t]].clone());
                idx[t] += 1;
                rec(seqs, idx, cur, out);
                idx[t] -= 1;
                cur.pop();
            }
        }
    }
    rec(&seqs, &mut vec![0; txs.len()], &mut vec![], &mut out);
    out
}

pub fn histories(tier: &str) -> Vec<(&'static str, Vec<History>)> {
    let q = tier == "quick";
    let mut fams = vec![];
    let shapes = |rs: &[Step], ws: &[Step]| -> Vec<Vec<Step>> {
        let mut v: Vec<Vec<Step>> = vec![];
        for w in ws {
            v.push(vec![w.clone()]);
        }
        for r in rs {
            for w in ws {
                v.push(vec![r.clone(), w.clone()]);
            }
        }
        v
    };
    // F0: two transactions, small shapes, EVERY interleaving of all events
    {
        let sh = shapes(&reads(false)[..if q { 4 } else { 8 }], &writes(false)[..if q { 3 } else { 4 }]);
        let mut hs = vec![];
        for a in &sh {
            for b in &sh {
                let txs = vec![a.clone(), b.clone()];
                for ev in full_interleavings(&txs) {
                    hs.push(History { txs: txs.clone(), events: ev, reopened: false });
                }
            }
        }
        fams.push(("2tx/all-interleavings", hs));
    }
    // F1: two transactions, every read method x every write method, Begin/Commit orders
    {
        let rs = reads(true);
        let ws = writes(true);
        let t1s = shapes(&rs, &ws[..if q { 2 } else { ws.len() }]);
        let t2s = shapes(&reads(false)[..if q { 3 } else { 8 }], &ws);
        let mut hs = vec![];
        for a in &t1s {
            for b in &t2s {
                for (x, y) in [(a, b), (b, a)] {
                    let txs = vec![x.clone(), y.clone()];
                    for o in bc_orders(2) {
                        hs.push(History { txs: txs.clone(), events: with_steps(&o, &txs), reopened: false });
                    }
                }
            }
        }
        fams.push(("2tx/every-read-method x every-write-method", hs));
    }
    // F2: three transactions from small shapes, all Begin/Commit orders, optionally a maintenance step at every position
    {
        let sh = shapes(&[Step::Get("a"), Step::Get("b"), Step::Iter][..], &[Step::Insert("a", "1"), Step::Insert("b", "1"), Step::Remove("a")][..]);
        let sh: Vec<Vec<Step>> = if q { sh.into_iter().step_by(2).collect() } else { sh };
        let mut hs = vec![];
        for a in &sh {
            for b in &sh {
                for c in &sh {
                    let txs = vec![a.clone(), b.clone(), c.clone()];
                    for o in bc_orders(3) {
                        hs.push(History { txs: txs.clone(), events: with_steps(&o, &txs), reopened: false });
                    }
                }
            }
        }
        fams.push(("3tx/begin-commit orders", hs));
    }
    // F3: maintenance (watermark pull-up + GC of the committed-transaction table) at every position
    {
        let sh = shapes(&[Step::Get("a"), Step::Get("b")][..], &[Step::Insert("a", "1"), Step::Insert("b", "1")][..]);
        let mut hs = vec![];
        let n3: Vec<Vec<Step>> = if q { vec![vec![Step::Get("a"), Step::Insert("b", "1")], vec![Step::Insert("a", "1")], vec![Step::Insert("ab", "1")]] } else { sh.clone() };
        for a in &n3 {
            for b in &n3 {
                for c in &n3 {
                    let txs = vec![a.clone(), b.clone(), c.clone()];
                    for o in bc_orders(3) {
                        let base = with_steps(&o, &txs);
                        for pos in 1..base.len() {
                            let mut ev = base.clone();
                            ev.insert(pos, Ev::Maint);
                            if !q {
                                for pos2 in pos + 1..=ev.len().min(pos + 3) {
                                    let mut ev2 = ev.clone();
                                    ev2.insert(pos2, Ev::Maint);
                                    hs.push(History { txs: txs.clone(), events: ev2, reopened: false });
                                }
                            }
                            hs.push(History { txs: txs.clone(), events: ev, reopened: false });
                        }
                    }
                }
            }
        }
        fams.push(("3tx/with maintenance at every position", hs));
    }
    // F0r / F3r: the same histories on a recovered database (the oracle, the snapshot tracker and the counters are built
    // by another constructor path after a reopen)
    {
        let mut hs: Vec<History> = vec![];
        for (name, fam) in &fams {
            if *name == "2tx/all-interleavings" || *name == "3tx/with maintenance at every position" {
                for (i, h) in fam.iter().enumerate() {
                    if !q || i % 4 == 0 {
                        hs.push(History { reopened: true, ..h.clone() });
                    }
                }
            }
        }
        fams.push(("2tx interleavings + 3tx with maintenance, on a recovered database", hs));
    }
    // F4: two keyspaces: reads and writes of one transaction spread over x and y against a committer in x or y
    {
        let rs: Vec<Step> = if q { vec![Step::Get("a"), Step::Len] } else { vec![Step::Get("a"), Step::Len, Step::Range("=a", "!b"), Step::Contains("b")] };
        let ws: Vec<Step> = vec![Step::Insert("a", "1"), Step::Remove("b")];
        let on = |k: usize, s: &Step| if k == 1 { s.clone().y() } else { s.clone() };
        let mut t1s: Vec<Vec<Step>> = vec![];
        for ka in 0..2 {
            for kb in 0..2 {
                for kc in 0..2 {
                    for r1 in &rs {
                        for r2 in &rs {
                            for w in &ws {
                                t1s.push(vec![on(ka, r1), on(kb, r2), on(kc, w)]);
                            }
                        }
                    }
                }
            }
        }
        let mut t2s: Vec<Vec<Step>> = vec![];
        for kd in 0..2 {
            for w in &ws {
                t2s.push(vec![on(kd, w)]);
                for ka in 0..2 {
                    t2s.push(vec![on(ka, &rs[0]), on(kd, w)]);
                }
            }
        }
        let mut hs = vec![];
        for a in &t1s {
            for b in &t2s {
                for (x, y) in [(a, b), (b, a)] {
                    let txs = vec![x.clone(), y.clone()];
                    for o in bc_orders(2) {
                        hs.push(History { txs: txs.clone(), events: with_steps(&o, &txs), reopened: false });
                    }
                }
            }
        }
        fams.push(("2tx/two keyspaces", hs));
    }
    // F5: a sibling transaction begun at the same instant ends by rollback(), drop or commit; then every sequence of
    // up to L filler commits / maintenance steps; then the survivor writes what it read and commits
    {
        const FV: [&str; 6] = ["f0", "f1", "f2", "f3", "f4", "f5"];
        let l = if q { 4 } else { 6 };
        let reads: Vec<Step> = if q { vec![Step::Get("a"), Step::Len] } else { vec![Step::Get("a"), Step::Len, Step::Range("=a", "!b"), Step::SizeOf("a")] };
        // tail alphabet: 0 = filler writing a, 1 = filler writing b, 2 = maintenance
        let mut tails: Vec<Vec<u8>> = vec![vec![]];
        let mut frontier: Vec<Vec<u8>> = vec![vec![]];
        for _ in 0..l {
            let mut next = vec![];
            for t in &frontier {
                for e in 0..3u8 {
                    let mut n = t.clone();
                    n.push(e);
                    next.push(n);
                }
            }
            tails.extend(next.iter().cloned());
            frontier = next;
        }
        let mut hs = vec![];
        for closer in 0..3u8 {
            for r in &reads {
                for tail in &tails {
                    // only tails in which the survivor's read is overwritten are interesting for the conflict clause,
                    // the others are kept too (they must commit or conflict, never corrupt)
                    let mut txs: Vec<Vec<Step>> = vec![vec![r.clone(), Step::Insert("a", "s")], if closer == 2 { vec![Step::Insert("b", "sib")] } else { vec![Step::Get("b")] }];
                    let mut ev = vec![Ev::Begin(0), Ev::Begin(1), Ev::Step(0, 0), Ev::Step(1, 0)];
                    ev.push(match closer {
                        0 => Ev::Rollback(1),
                        1 => Ev::Drop(1),
                        _ => Ev::Commit(1),
                    });
                    for (i, e) in tail.iter().enumerate() {
                        match e {
                            2 => ev.push(Ev::Maint),
                            k => {
                                let t = txs.len();
                                txs.push(vec![Step::Insert(if *k == 0 { "a" } else { "b" }, FV[i])]);
                                ev.extend([Ev::Begin(t), Ev::Step(t, 0), Ev::Commit(t)]);
                            }
                        }
                    }
                    ev.extend([Ev::Step(0, 1), Ev::Commit(0)]);
                    hs.push(History { txs, events: ev, reopened: false });
                }
            }
        }
        fams.push(("sibling ends by rollback/drop/commit, fillers + maintenance, survivor commits", hs));
    }
    fams
}

// ------------------------------------------------------------------ E3
pub struct SkewBody {
    pub name: &'static str,
    /// per thread: steps of its transaction
    pub txs: Vec<Vec<Step>>,
}

impl Body for SkewBody {
    fn name(&self) -> String {
        self.name.to_string()
    }
    fn launch(&self, dir: &Path) -> Launched {
        // "[worker-flush]": fjall's own worker flushes another keyspace meanwhile (a new tree version raises the visible
        // seqno outside the journal lock: transactions must still begin and validate against whole commits only)
        let with_worker = self.name.contains("[worker-flush]");
        let db = OptimisticTxDatabase::builder(dir).worker_threads_unchecked(usize::from(with_worker)).open().expect("open");
        let kss = [db.keyspace("x", KeyspaceCreateOptions::default).expect("ks"), db.keyspace("y", KeyspaceCreateOptions::default).expect("ks")];
        if with_worker {
            let z = db.keyspace("z", KeyspaceCreateOptions::default).expect("ks");
            z.inner().insert("m", "0").expect("init");
            z.inner().rotate_memtable().expect("rotate");
        }
        for (i, m) in initial_map().iter().enumerate() {
            for (k, v) in m {
                kss[i].inner().insert(k, v).expect("init");
            }
        }
        let n = self.txs.len();
        let done = Arc::new(AtomicUsize::new(0));
        let log: Arc<Mutex<Vec<(usize, u64, u64, Vec<String>, Option<bool>)>>> = Arc::new(Mutex::new(vec![]));
        let fin: Arc<Mutex<Option<Maps>>> = Arc::new(Mutex::new(None));
        let mut handles = vec![];
        const NAMES: [&str; 3] = ["tx0", "tx1", "tx2"];
        for (t, steps) in self.txs.iter().enumerate() {
            let (db, ks, steps, done, log) = (db.clone(), kss.clone(), steps.clone(), done.clone(), log.clone());
            handles.push(spawn_client(NAMES[t], move || {
                client_point("client.call");
                let begin = sched().now();
                let mut tx = db.write_tx().expect("tx");
                let mut res = vec![];
                for s in &steps {
                    client_point("client.step");
                    res.push(real_step(&mut tx, &ks, s).unwrap_or_else(|e| format!("ERR {e}")));
                }
                client_point("client.before_commit");
                let c = tx.commit().ok().map(|r| r.is_ok());
                let end = sched().now();
                log.lock().unwrap().push((t, begin, end, res, c));
                drop(ks);
                drop(db);
                done.fetch_add(1, Ordering::SeqCst);
            }));
        }
        {
            let (done, fin) = (done.clone(), fin.clone());
            handles.push(spawn_client("closer", move || {
                client_block_until(&|| done.load(Ordering::SeqCst) == n, "closer.wait_clients");
                *fin.lock().unwrap() = match (scan_ks(kss[0].inner()), scan_ks(kss[1].inner())) {
                    (Ok(a), Ok(b)) => Some([a, b]),
                    _ => None,
                };
                drop(kss);
                drop(db);
            }));
        }
        let txs = self.txs.clone();
        let judge = Box::new(move |_dir: &Path| -> Result<String, Violation> {
            let log = log.lock().unwrap().clone();
            let final_state = fin.lock().unwrap().clone().unwrap_or_default();
            let com: Vec<usize> = log.iter().filter(|l| l.4 == Some(true)).map(|l| l.0).collect();
            let get = |t: usize| log.iter().find(|l| l.0 == t).unwrap();
            let mut perm = com.clone();
            let mut found = false;
            permute(&mut perm, 0, &mut |order: &[usize]| {
                if found {
                    return;
                }
                for (i, a) in order.iter().enumerate() {
                    for b in &order[i + 1..] {
                        if get(*b).2 < get(*a).1 {
                            return;
                        }
                    }
                }
                let mut m = initial_map();
                for t in order {
                    let mut view = m.clone();
                    for (i, s) in txs[*t].iter().enumerate() {
                        if model_step(&mut view, s) != get(*t).3[i] {
                            return;
                        }
                    }
                    m = view;
                }
                if m == final_state {
                    found = true;
                }
            });
            if !found {
                return Err(Violation::new("not_serializable", format!("committed {:?}, final {}, log {:?}", com, show_maps(&final_state), log)));
            }
            Ok(format!("committed={com:?}"))
        });
        Launched { handles, judge }
    }
}

pub fn bodies(tier: &str) -> Vec<BodySpec> {
    let q = tier == "quick";
    let b = |body: SkewBody, bound: usize, secs: f64| BodySpec { body: Arc::new(body), bound, secs };
    let mut v = vec![
        b(SkewBody { name: "write skew: get a/ins b || get b/ins a", txs: vec![vec![Step::Get("a"), Step::Insert("b", "1")], vec![Step::Get("b"), Step::Insert("a", "1")]] }, if q { 2 } else { 3 }, if q { 6.0 } else { 300.0 }),
        b(SkewBody { name: "lost update: fetch_update a || fetch_update a", txs: vec![vec![Step::FetchUpdate("a", "append")], vec![Step::FetchUpdate("a", "append")]] }, if q { 2 } else { 3 }, if q { 5.0 } else { 300.0 }),
    ];
    v.push(b(SkewBody { name: "2-key commit || begin/read both/write/commit || worker flush [worker-flush] [focus:commit-path]", txs: vec![vec![Step::Insert("a", "1"), Step::Insert("b", "1")], vec![Step::Get("a"), Step::Get("b"), Step::Insert("ab", "1")]] }, 2, if q { 5.0 } else { 300.0 }));
    if !q {
        v.push(b(SkewBody { name: "3 tx: scan/ins || ins || get/rem", txs: vec![vec![Step::Iter, Step::Insert("ab", "1")], vec![Step::Insert("a", "1")], vec![Step::Get("a"), Step::Remove("b")]] }, 2, 300.0));
    }
    v
}

pub fn run(tier: &str) -> i32 {
    let t0 = Instant::now();
    let mut o = Outcome::new("C07", tier, "model_checking");
    let q = tier == "quick";
    let deadline = t0 + Duration::from_secs_f64(if q { 30.0 } else { 900.0 });
    let fams = histories(tier);
    let findings: Mutex<Vec<Finding>> = Mutex::new(vec![]);
    let outcomes: Mutex<BTreeSet<String>> = Mutex::new(BTreeSet::new());
    let mut recs = vec![];
    let mut exhaustive = true;
    for (fi, (name, hs)) in fams.iter().enumerate() {
        let conflicts = AtomicUsize::new(0);
        let steps = AtomicUsize::new(0);
        // the two 2-transaction families are the required core: executed whatever the clock says
        let (done, to) = crate::par::par_for_core(hs.len(), if fi < 2 { hs.len() } else { 0 }, threads(), deadline, |i| {
            let h = &hs[i];
            steps.fetch_add(h.events.len(), Ordering::Relaxed);
            match run_history(h) {
                Ok(oc) => {
                    if oc.contains("conflicts=1") || oc.contains("conflicts=2") {
                        conflicts.fetch_add(1, Ordering::Relaxed);
                    }
                    let key: String = oc.split(" final").next().unwrap_or("").to_string();
                    outcomes.lock().unwrap().insert(key);
                }
                Err(v) => {
                    let kinds: BTreeSet<String> = h.txs.iter().flatten().map(|s| format!("{s:?}").split('(').next().unwrap_or("").to_string()).collect();
                    findings.lock().unwrap().push(Finding {
                        sig: format!("{}|ops={}", v.clause, kinds.into_iter().collect::<Vec<_>>().join(",")),
                        engine: "E1-histories".into(),
                        variant: json!({"family": name, "index": i, "tier": tier}),
                        program: h.render(),
                        clause: v.clause,
                        detail: v.detail,
                    });
                }
            }
        });
        o.cov_add("states", done as u64);
        o.cov_add("transitions", steps.load(Ordering::Relaxed).max(1) as u64);
        o.cov_add("traces_validated_against_impl", done as u64);
        recs.push(json!({"family": name, "histories": hs.len(), "executed": done, "completed": !to, "histories_with_a_conflict": conflicts.load(Ordering::Relaxed)}));
        if to {
            exhaustive = false;
        }
        if let Some(h) = hs.get(hs.len() / 2) {
            o.sample(json!({"family": name, "history": h.render()}));
        }
    }
    o.cov("families", json!(recs));
    o.cov("distinct_outcomes", json!(outcomes.lock().unwrap().len()));
    o.cov("exhaustive", json!(exhaustive));
    fold_e3(&mut o, "C07", tier, &crate::e3::with_variants(bodies(tier), tier), "e3_");
    o.cov("rule", json!("E1: histories of 2-3 optimistic transactions over keys {a,ab,b}: (i) two transactions of 1-2 steps with EVERY interleaving of all begin/step/commit events; (ii) two transactions covering every read method (get, contains_key, size_of, first/last_key_value, iter, range with every bound shape, prefix, is_empty, len) x every write method (insert, remove, take, fetch_update, update_fetch) in every begin/commit order; (iii) three transactions from small shapes in every begin/commit order; (iv) the same with a maintenance step (write + rotation elsewhere: watermark pull-up and GC of the committed-transaction table) at every position. Each history runs on the real database; the oracle searches all serial orders of the committed transactions consistent with real time for one that reproduces every recorded read result and the final state; a refused transaction must leave no effect. A Conflict is never a violation by itself. E3: write-skew / lost-update bodies under every schedule up to the preemption bound with scheduling points inside Oracle::with_commit."));
    o.assumptions = vec![
        "in families (ii)-(iv) a transaction's steps are placed right after its begin: steps read the begin-time snapshot and buffer writes, so only the order of begin and commit events matters; family (i) validates this by enumerating every interleaving".into(),
    ];
    if recs.iter().take(2).any(|r| r["completed"] == json!(false)) {
        o.machinery_errors.push("time cap hit before the required core (the two 2-transaction families) was executed".into());
    }
    if outcomes.lock().unwrap().len() < 3 {
        o.machinery_errors.push("vacuous: fewer than 3 distinct outcomes".into());
    }
    let mut f = findings.into_inner().unwrap();
    f.sort_by_key(|x| (x.sig.clone(), x.program.len()));
    o.findings.extend(f);
    o.wall_s = t0.elapsed().as_secs_f64();
    finish(o)
}

pub fn replay(v: &serde_json::Value) -> i32 {
    if v["engine"] == "E3-schedcheck" {
        let tier = v["variant"]["tier"].as_str().unwrap_or("quick");
        let bi = v["variant"]["body_index"].as_u64().unwrap_or(0) as usize;
        let choices: Vec<usize> = v["variant"]["choices"].as_array().map(|a| a.iter().filter_map(|c| c.as_u64().map(|c| c as usize)).collect()).unwrap_or_default();
        return match crate::e3::with_variants(bodies(tier), tier).get(bi) {
            Some(b) => replay_schedule(&*b.body, &choices),
            None => 2,
        };
    }
    let fam = v["variant"]["family"].as_str().unwrap_or("");
    let idx = v["variant"]["index"].as_u64().unwrap_or(0) as usize;
    let tier = v["variant"]["tier"].as_str().unwrap_or("quick");
    for (name, hs) in histories(tier) {
        if name == fam {
            if let Some(h) = hs.get(idx) {
                for l in h.render() {
                    println!("  {l}");
                }
                return match run_history(h) {
                    Ok(o) => {
                        println!("replay: serializable: {o}");
                        0
                    }
                    Err(v) => {
                        println!("replay: VIOLATION clause={} :: {}", v.clause, v.detail);
                        1
                    }
                };
            }
        }
    }
    2
}
