//! C08 — transaction-local semantics: read-your-writes, last write wins, clean rollback (E1; E3 lost-update bodies).

use crate::core::*;
use crate::e3::*;
use crate::explore::*;
use crate::report::*;
use crate::sched::*;
use crate::seqrun::{merge_wit, threads};
use crate::world::*;
use fjall::{KeyspaceCreateOptions, OptimisticTxDatabase, OptimisticTxKeyspace, OptimisticWriteTx, Readable, SingleWriterTxDatabase, SingleWriterTxKeyspace, SingleWriterWriteTx};
use serde_json::json;
use std::collections::BTreeMap;
use std::path::{Path, PathBuf};
use std::sync::atomic::{AtomicUsize, Ordering};
use std::sync::{Arc, Mutex};
use std::time::{Duration, Instant};

#[derive(Clone, Debug, PartialEq, Eq, PartialOrd, Ord, Hash)]
pub enum TOp {
    Ins(u8, u8, u8),
    Rem(u8, u8),
    Take(u8, u8),
    /// closure: 0 keep, 1 change to "9", 2 delete
    FetchUpdate(u8, u8, u8),
    UpdateFetch(u8, u8, u8),
    Commit,
    Rollback,
    DropTx,
}

const KEYS4: [&[u8]; 4] = [b"a", b"ab", b"b", b"c"];

impl std::fmt::Display for TOp {
    fn fmt(&self, f: &mut std::fmt::Formatter<'_>) -> std::fmt::Result {
        let k = |i: &u8| show_key(KEYS4[*i as usize]);
        let c = |i: &u8| ["keep", "change", "delete"][*i as usize];
        match self {
            TOp::Ins(ks, key, v) => write!(f, "tx.insert {}.{}={}", ksn(*ks), k(key), v),
            TOp::Rem(ks, key) => write!(f, "tx.remove {}.{}", ksn(*ks), k(key)),
            TOp::Take(ks, key) => write!(f, "tx.take {}.{}", ksn(*ks), k(key)),
            TOp::FetchUpdate(ks, key, cl) => write!(f, "tx.fetch_update {}.{} {}", ksn(*ks), k(key), c(cl)),
            TOp::UpdateFetch(ks, key, cl) => write!(f, "tx.update_fetch {}.{} {}", ksn(*ks), k(key), c(cl)),
            TOp::Commit => write!(f, "commit"),
            TOp::Rollback => write!(f, "rollback"),
            TOp::DropTx => write!(f, "drop"),
        }
    }
}

fn parse_top(s: &str) -> Option<TOp> {
    let w: Vec<&str> = s.split_whitespace().collect();
    let kk = |t: &str| -> Option<(u8, u8)> {
        let (ks, k) = t.split_once('.')?;
        Some((KS_NAMES.iter().position(|n| *n == ks)? as u8, KEYS4.iter().position(|x| *x == k.as_bytes())? as u8))
    };
    let cl = |t: &str| ["keep", "change", "delete"].iter().position(|x| *x == t).map(|x| x as u8);
    Some(match w.as_slice() {
        ["commit"] => TOp::Commit,
        ["rollback"] => TOp::Rollback,
        ["drop"] => TOp::DropTx,
        ["tx.insert", kv] => {
            let (l, v) = kv.split_once('=')?;
            let (ks, k) = kk(l)?;
            TOp::Ins(ks, k, v.parse().ok()?)
        }
        ["tx.remove", t] => {
            let (ks, k) = kk(t)?;
            TOp::Rem(ks, k)
        }
        ["tx.take", t] => {
            let (ks, k) = kk(t)?;
            TOp::Take(ks, k)
        }
        ["tx.fetch_update", t, c] => {
            let (ks, k) = kk(t)?;
            TOp::FetchUpdate(ks, k, cl(c)?)
        }
        ["tx.update_fetch", t, c] => {
            let (ks, k) = kk(t)?;
            TOp::UpdateFetch(ks, k, cl(c)?)
        }
        _ => return None,
    })
}

enum Tx {
    Sw(SingleWriterWriteTx<'static>, Vec<SingleWriterTxKeyspace>),
    Occ(OptimisticWriteTx, Vec<OptimisticTxKeyspace>),
}

pub struct TWorld {
    tx: Option<Tx>,
    w: World,
    initial: BTreeMap<u8, Map>,
    overlay: BTreeMap<u8, Map>,
    ended: Option<TOp>,
}

impl Drop for TWorld {
    fn drop(&mut self) {
        self.tx = None;
    }
}

pub struct TxLocalProp {
    pub kind: DbKind,
    pub alphabet: Vec<TOp>,
}

fn closure(cl: u8) -> impl Fn(Option<&fjall::UserValue>) -> Option<fjall::UserValue> {
    move |v| match cl {
        0 => v.cloned(),
        1 => Some(b"9".as_slice().into()),
        _ => None,
    }
}

fn model_closure(cl: u8, prev: Option<&Vec<u8>>) -> Option<Vec<u8>> {
    match cl {
        0 => prev.cloned(),
        1 => Some(b"9".to_vec()),
        _ => None,
    }
}

impl Property for TxLocalProp {
    type Op = TOp;
    type World = TWorld;
    type Stats = Witness;

    fn id(&self) -> &'static str {
        "C08"
    }

    fn init(&self, dir: PathBuf) -> Result<TWorld, Violation> {
        // keyspace z exists but has never seen a committed write (shortcuts based on "the keyspace is empty" must still
        // see the transaction's own writes)
        let mut w = World::new(dir, Cfg { kind: self.kind, nks: 3, ..Cfg::default2() })?;
        for o in ["ins x.a=1", "ins x.b=2", "ins y.a=1", "rotate x", "step WorkerMessage:Flush", "ins x.b=1"] {
            w.apply(&Op::parse(o).unwrap())?;
        }
        let initial = w.model.clone();
        let e = |x: fjall::Error| Violation::new("op_error", format!("{x:?}"));
        let tx = match w.db.as_ref().expect("db") {
            Db::Sw(d) => {
                let hs = vec![d.keyspace("x", KeyspaceCreateOptions::default).map_err(e)?, d.keyspace("y", KeyspaceCreateOptions::default).map_err(e)?, d.keyspace("z", KeyspaceCreateOptions::default).map_err(e)?];
                let tx = d.write_tx();
                Tx::Sw(unsafe { std::mem::transmute::<SingleWriterWriteTx<'_>, SingleWriterWriteTx<'static>>(tx) }, hs)
            }
            Db::Occ(d) => {
                let hs = vec![d.keyspace("x", KeyspaceCreateOptions::default).map_err(e)?, d.keyspace("y", KeyspaceCreateOptions::default).map_err(e)?, d.keyspace("z", KeyspaceCreateOptions::default).map_err(e)?];
                Tx::Occ(d.write_tx().map_err(e)?, hs)
            }
            Db::Plain(_) => return Err(Violation::new("harness", "plain db")),
        };
        Ok(TWorld { tx: Some(tx), overlay: initial.clone(), initial, w, ended: None })
    }

    fn apply(&self, t: &mut TWorld, op: &TOp) -> Result<(), Violation> {
        let e = |x: fjall::Error| Violation::new("op_error", format!("{x:?}"));
        let opt = |v: Option<fjall::UserValue>| v.map(|x| x.to_vec());
        match op {
            TOp::Commit | TOp::Rollback | TOp::DropTx => {
                let tx = t.tx.take().ok_or_else(|| Violation::new("harness", "no tx"))?;
                match (op, tx) {
                    (TOp::Commit, Tx::Sw(tx, _)) => tx.commit().map_err(e)?,
                    (TOp::Commit, Tx::Occ(tx, _)) => {
                        if tx.commit().map_err(e)?.is_err() {
                            return Err(Violation::new("commit.conflict_without_concurrency", "a lone optimistic transaction was refused with Conflict"));
                        }
                    }
                    (TOp::Rollback, Tx::Sw(tx, _)) => tx.rollback(),
                    (TOp::Rollback, Tx::Occ(tx, _)) => tx.rollback(),
                    (_, tx) => drop(tx),
                }
                if *op == TOp::Commit {
                    t.w.model = t.overlay.clone();
                }
                t.ended = Some(op.clone());
                return Ok(());
            }
            _ => {}
        }
        let tx = t.tx.as_mut().ok_or_else(|| Violation::new("harness", "no tx"))?;
        let (ks, k) = match op {
            TOp::Ins(ks, k, _) | TOp::Rem(ks, k) | TOp::Take(ks, k) | TOp::FetchUpdate(ks, k, _) | TOp::UpdateFetch(ks, k, _) => (*ks, *k),
            _ => unreachable!(),
        };
        let key = KEYS4[k as usize];
        let prev = t.overlay[&ks].get(key).cloned();
        let (ret, expect_ret): (Option<Option<Vec<u8>>>, Option<Option<Vec<u8>>>) = match (op, tx) {
            (TOp::Ins(_, _, v), Tx::Sw(tx, hs)) => {
                tx.insert(&hs[ks as usize], key, format!("{v}"));
                (None, None)
            }
            (TOp::Ins(_, _, v), Tx::Occ(tx, hs)) => {
                tx.insert(&hs[ks as usize], key, format!("{v}"));
                (None, None)
            }
            (TOp::Rem(..), Tx::Sw(tx, hs)) => {
                tx.remove(&hs[ks as usize], key);
                (None, None)
            }
            (TOp::Rem(..), Tx::Occ(tx, hs)) => {
                tx.remove(&hs[ks as usize], key);
                (None, None)
            }
            (TOp::Take(..), Tx::Sw(tx, hs)) => (Some(opt(tx.take(&hs[ks as usize], key).map_err(e)?)), Some(prev.clone())),
            (TOp::Take(..), Tx::Occ(tx, hs)) => (Some(opt(tx.take(&hs[ks as usize], key).map_err(e)?)), Some(prev.clone())),
            (TOp::FetchUpdate(_, _, cl), Tx::Sw(tx, hs)) => (Some(opt(tx.fetch_update(&hs[ks as usize], key, closure(*cl)).map_err(e)?)), Some(prev.clone())),
            (TOp::FetchUpdate(_, _, cl), Tx::Occ(tx, hs)) => (Some(opt(tx.fetch_update(&hs[ks as usize], key, closure(*cl)).map_err(e)?)), Some(prev.clone())),
            (TOp::UpdateFetch(_, _, cl), Tx::Sw(tx, hs)) => (Some(opt(tx.update_fetch(&hs[ks as usize], key, closure(*cl)).map_err(e)?)), Some(model_closure(*cl, prev.as_ref()))),
            (TOp::UpdateFetch(_, _, cl), Tx::Occ(tx, hs)) => (Some(opt(tx.update_fetch(&hs[ks as usize], key, closure(*cl)).map_err(e)?)), Some(model_closure(*cl, prev.as_ref()))),
            _ => unreachable!(),
        };
        if ret != expect_ret {
            return Err(Violation::new(
                "return_value",
                format!("{op} returned {:?}, documented {:?}", ret.flatten().map(|v| show_val(&v)), expect_ret.flatten().map(|v| show_val(&v))),
            ));
        }
        // model
        let m = t.overlay.get_mut(&ks).unwrap();
        let newv: Option<Vec<u8>> = match op {
            TOp::Ins(_, _, v) => Some(format!("{v}").into_bytes()),
            TOp::Rem(..) | TOp::Take(..) => None,
            TOp::FetchUpdate(_, _, cl) | TOp::UpdateFetch(_, _, cl) => model_closure(*cl, prev.as_ref()),
            _ => unreachable!(),
        };
        match newv {
            Some(v) => {
                m.insert(key.to_vec(), v);
            }
            None => {
                m.remove(key);
            }
        }
        Ok(())
    }

    fn step_check(&self, t: &mut TWorld) -> Result<(), Violation> {
        // inside: snapshot overlaid with own writes; outside: nothing visible until commit
        if let Some(tx) = &t.tx {
            for (ks, m) in &t.overlay {
                let h = &t.w.ks[ks];
                let got = match tx {
                    Tx::Sw(tx, _) => observe_view(tx, h, Probe::Lite),
                    Tx::Occ(tx, _) => observe_view(tx, h, Probe::Lite),
                };
                let want = observe_model(m, Probe::Lite);
                if got != want {
                    return Err(Violation::new("inside.read_your_writes", format!("keyspace {}: {} (expected view {})", ksn(*ks), got.diff(&want), show_map(m))));
                }
            }
            for (ks, m) in &t.initial {
                let got = observe_ks(&t.w.ks[ks], Probe::Lite);
                let want = observe_model(m, Probe::Lite);
                if got != want {
                    return Err(Violation::new("outside.visible_before_commit", format!("keyspace {}: {}", ksn(*ks), got.diff(&want))));
                }
            }
        }
        Ok(())
    }

    fn check(&self, t: &mut TWorld) -> Result<Vec<u64>, Violation> {
        let mut d = vec![];
        if t.ended.is_some() {
            let clause = match t.ended {
                Some(TOp::Commit) => "outside.after_commit",
                Some(TOp::Rollback) => "outside.after_rollback",
                _ => "outside.after_drop",
            };
            d = t.w.check_all(Probe::Full).map_err(|v| Violation::new(clause, v.detail))?;
            // and it stays so across a reopen
            t.w.apply(&Op::Reopen)?;
            t.w.check_all(Probe::Lite).map_err(|v| Violation::new(&format!("{clause}.reopen"), v.detail))?;
        }
        d.push(t.ended.as_ref().map(|e| e.to_string().len() as u64).unwrap_or(0));
        Ok(d)
    }

    fn enabled(&self, t: &TWorld, _len: usize) -> Vec<TOp> {
        if t.tx.is_none() {
            return vec![];
        }
        self.alphabet.clone()
    }
}

fn alphabet(full: bool) -> Vec<TOp> {
    let mut v = vec![
        TOp::Ins(0, 0, 2),
        TOp::Ins(0, 1, 3),
        TOp::Ins(1, 0, 4),
        TOp::Rem(0, 0),
        TOp::Rem(0, 2),
        TOp::Take(0, 0),
        TOp::Take(0, 3),
        TOp::FetchUpdate(0, 2, 1),
        TOp::FetchUpdate(0, 2, 2),
        TOp::UpdateFetch(0, 0, 1),
        TOp::UpdateFetch(1, 0, 2),
        TOp::UpdateFetch(0, 2, 0),
        TOp::Ins(2, 0, 6),
        TOp::Rem(2, 0),
    ];
    if full {
        v.extend([TOp::Rem(1, 0), TOp::Ins(0, 2, 5), TOp::FetchUpdate(0, 3, 1), TOp::FetchUpdate(0, 0, 0), TOp::UpdateFetch(0, 3, 2), TOp::Take(1, 0)]);
    }
    v.extend([TOp::Commit, TOp::Rollback, TOp::DropTx]);
    v
}

// ------------------------------------------------------------------ E3: no lost update
/// What one client thread does to the counter key `c`.
#[derive(Clone, Copy, Debug, PartialEq)]
pub enum Mode {
    /// write_tx: get c, insert c+1, commit
    Tx,
    /// keyspace helper fetch_update(c -> c+1)
    FetchUpdate,
    /// keyspace helper update_fetch(c -> c+1)
    UpdateFetch,
    /// keyspace helper insert(c = 100)
    Insert100,
    /// keyspace helper remove(c)
    Remove,
    /// keyspace helper take(c)
    Take,
}

impl Mode {
    fn apply(self, v: Option<u32>) -> Option<u32> {
        match self {
            // an absent counter is restarted at 1000, so that "removed, then incremented" differs from a lost update
            Mode::Tx | Mode::FetchUpdate | Mode::UpdateFetch => Some(v.map(|x| x + 1).unwrap_or(1000)),
            Mode::Insert100 => Some(100),
            Mode::Remove | Mode::Take => None,
        }
    }
}

pub struct CounterBody {
    pub name: &'static str,
    pub occ: bool,
    pub modes: Vec<Mode>,
}

impl Body for CounterBody {
    fn name(&self) -> String {
        self.name.to_string()
    }
    fn launch(&self, dir: &Path) -> Launched {
        enum D {
            Sw(SingleWriterTxDatabase, SingleWriterTxKeyspace),
            Occ(OptimisticTxDatabase, OptimisticTxKeyspace),
        }
        let occ = self.occ;
        let open = |init: bool| {
            if occ {
                let db = OptimisticTxDatabase::builder(dir).worker_threads_unchecked(0).open().expect("open");
                let ks = db.keyspace("x", KeyspaceCreateOptions::default).expect("ks");
                if init {
                    ks.insert("c", "0").expect("init");
                }
                D::Occ(db, ks)
            } else {
                let db = SingleWriterTxDatabase::builder(dir).worker_threads_unchecked(0).open().expect("open");
                let ks = db.keyspace("x", KeyspaceCreateOptions::default).expect("ks");
                if init {
                    ks.insert("c", "0").expect("init");
                }
                D::Sw(db, ks)
            }
        };
        // "[reopened]": the transactions run on a recovered database
        let mut d = open(true);
        if self.name.contains("[reopened]") {
            drop(d);
            d = open(false);
        }
        let n = self.modes.len();
        let done = Arc::new(AtomicUsize::new(0));
        let in_cs = Arc::new(AtomicUsize::new(0));
        let problems: Arc<Mutex<Vec<String>>> = Arc::new(Mutex::new(vec![]));
        let committed: Arc<Mutex<Vec<Mode>>> = Arc::new(Mutex::new(vec![]));
        let fin: Arc<Mutex<Option<String>>> = Arc::new(Mutex::new(None));
        let mut handles = vec![];
        const NAMES: [&str; 3] = ["inc0", "inc1", "inc2"];
        let inc = |v: Option<&fjall::UserValue>| -> Option<fjall::UserValue> {
            let cur: Option<u32> = v.and_then(|x| std::str::from_utf8(x).ok().and_then(|s| s.parse().ok()));
            Some(format!("{}", cur.map(|c| c + 1).unwrap_or(1000)).as_bytes().into())
        };
        for (i, mode) in self.modes.iter().copied().enumerate() {
            let done = done.clone();
            let in_cs = in_cs.clone();
            let problems = problems.clone();
            let committed = committed.clone();
            match &d {
                D::Sw(db, ks) => {
                    let (db, ks) = (db.clone(), ks.clone());
                    handles.push(spawn_client(NAMES[i], move || {
                        client_point("client.call");
                        let r: Result<bool, String> = match mode {
                            Mode::Tx => {
                                let mut tx = db.write_tx();
                                if in_cs.fetch_add(1, Ordering::SeqCst) != 0 {
                                    problems.lock().unwrap().push("two single-writer transactions overlap".into());
                                }
                                client_point("client.in_tx");
                                let cur: Option<u32> = tx.get(&ks, "c").ok().flatten().and_then(|x| std::str::from_utf8(&x).ok().and_then(|s| s.parse().ok()));
                                client_point("client.in_tx");
                                tx.insert(&ks, "c", format!("{}", cur.map(|c| c + 1).unwrap_or(1000)));
                                in_cs.fetch_sub(1, Ordering::SeqCst);
                                tx.commit().map(|()| true).map_err(|e| format!("{e:?}"))
                            }
                            Mode::FetchUpdate => ks.fetch_update("c", inc).map(|_| true).map_err(|e| format!("{e:?}")),
                            Mode::UpdateFetch => ks.update_fetch("c", inc).map(|_| true).map_err(|e| format!("{e:?}")),
                            Mode::Insert100 => ks.insert("c", "100").map(|_| true).map_err(|e| format!("{e:?}")),
                            Mode::Remove => ks.remove("c").map(|_| true).map_err(|e| format!("{e:?}")),
                            Mode::Take => ks.take("c").map(|_| true).map_err(|e| format!("{e:?}")),
                        };
                        match r {
                            Ok(true) => committed.lock().unwrap().push(mode),
                            Ok(false) => {}
                            Err(e) => problems.lock().unwrap().push(e),
                        }
                        drop(ks);
                        drop(db);
                        done.fetch_add(1, Ordering::SeqCst);
                    }));
                }
                D::Occ(db, ks) => {
                    let (db, ks) = (db.clone(), ks.clone());
                    handles.push(spawn_client(NAMES[i], move || {
                        client_point("client.call");
                        let r: Result<bool, String> = match mode {
                            Mode::Tx => {
                                let mut tx = db.write_tx().expect("tx");
                                let cur: Option<u32> = tx.get(&ks, "c").ok().flatten().and_then(|x| std::str::from_utf8(&x).ok().and_then(|s| s.parse().ok()));
                                client_point("client.in_tx");
                                tx.insert(&ks, "c", format!("{}", cur.map(|c| c + 1).unwrap_or(1000)));
                                match tx.commit() {
                                    Ok(Ok(())) => Ok(true),
                                    Ok(Err(_)) => Ok(false),
                                    Err(e) => Err(format!("{e:?}")),
                                }
                            }
                            Mode::FetchUpdate => ks.fetch_update("c", inc).map(|_| true).map_err(|e| format!("{e:?}")),
                            Mode::UpdateFetch => ks.update_fetch("c", inc).map(|_| true).map_err(|e| format!("{e:?}")),
                            Mode::Insert100 => ks.insert("c", "100").map(|_| true).map_err(|e| format!("{e:?}")),
                            Mode::Remove => ks.remove("c").map(|_| true).map_err(|e| format!("{e:?}")),
                            Mode::Take => ks.take("c").map(|_| true).map_err(|e| format!("{e:?}")),
                        };
                        match r {
                            Ok(true) => committed.lock().unwrap().push(mode),
                            Ok(false) => {}
                            Err(e) => problems.lock().unwrap().push(e),
                        }
                        drop(ks);
                        drop(db);
                        done.fetch_add(1, Ordering::SeqCst);
                    }));
                }
            }
        }
        {
            let done = done.clone();
            let fin = fin.clone();
            handles.push(spawn_client("closer", move || {
                client_block_until(&|| done.load(Ordering::SeqCst) == n, "closer.wait_clients");
                let v = match &d {
                    D::Sw(_, ks) => ks.get("c"),
                    D::Occ(_, ks) => ks.get("c"),
                };
                *fin.lock().unwrap() = Some(v.ok().flatten().map(|x| String::from_utf8_lossy(&x).into_owned()).unwrap_or_else(|| "-".into()));
                drop(d);
            }));
        }
        let judge = Box::new(move |_dir: &Path| -> Result<String, Violation> {
            let p = problems.lock().unwrap().clone();
            if !p.is_empty() {
                return Err(Violation::new("tx.problem", p.join(" | ")));
            }
            let c = committed.lock().unwrap().clone();
            let f = fin.lock().unwrap().clone().unwrap_or_default();
            // some serial order of the committed operations must produce the final value
            let mut idx: Vec<usize> = (0..c.len()).collect();
            let mut ok = false;
            permute_idx(&mut idx, 0, &mut |order: &[usize]| {
                let mut v = Some(0u32);
                for i in order {
                    v = c[*i].apply(v);
                }
                if v.map(|x| x.to_string()).unwrap_or_else(|| "-".into()) == f {
                    ok = true;
                }
            });
            if !ok {
                return Err(Violation::new("lost_update", format!("committed operations {c:?} (starting from c=0) cannot produce the final value {f} in any serial order")));
            }
            Ok(format!("committed={} final={f}", c.len()))
        });
        Launched { handles, judge }
    }
}

fn permute_idx(v: &mut Vec<usize>, k: usize, f: &mut dyn FnMut(&[usize])) {
    if k == v.len() {
        f(v);
        return;
    }
    for i in k..v.len() {
        v.swap(k, i);
        permute_idx(v, k + 1, f);
        v.swap(k, i);
    }
}

pub fn bodies(tier: &str) -> Vec<BodySpec> {
    use Mode::*;
    let q = tier == "quick";
    let b = |body: CounterBody, bound: usize, secs: f64| BodySpec { body: Arc::new(body), bound, secs };
    let mut v = vec![
        b(CounterBody { name: "single-writer: 2 x (tx get insert commit)", occ: false, modes: vec![Tx, Tx] }, if q { 2 } else { 3 }, if q { 4.0 } else { 200.0 }),
        b(CounterBody { name: "single-writer: 2 x fetch_update helper", occ: false, modes: vec![FetchUpdate, FetchUpdate] }, if q { 2 } else { 3 }, if q { 3.0 } else { 200.0 }),
        b(CounterBody { name: "optimistic: 2 x fetch_update helper (retry loop)", occ: true, modes: vec![FetchUpdate, FetchUpdate] }, if q { 1 } else { 3 }, if q { 4.0 } else { 300.0 }),
        b(CounterBody { name: "single-writer: tx || insert helper", occ: false, modes: vec![Tx, Insert100] }, if q { 2 } else { 3 }, if q { 2.0 } else { 100.0 }),
        b(CounterBody { name: "single-writer: tx || remove helper", occ: false, modes: vec![Tx, Remove] }, if q { 2 } else { 3 }, if q { 2.0 } else { 100.0 }),
        b(CounterBody { name: "single-writer: tx || take helper [reopened]", occ: false, modes: vec![Tx, Take] }, if q { 2 } else { 3 }, if q { 2.0 } else { 100.0 }),
        b(CounterBody { name: "single-writer: tx || update_fetch helper", occ: false, modes: vec![Tx, UpdateFetch] }, if q { 2 } else { 3 }, if q { 2.0 } else { 100.0 }),
        b(CounterBody { name: "optimistic: tx || insert helper [reopened]", occ: true, modes: vec![Tx, Insert100] }, if q { 2 } else { 3 }, if q { 2.0 } else { 100.0 }),
        b(CounterBody { name: "optimistic: tx || remove helper", occ: true, modes: vec![Tx, Remove] }, if q { 2 } else { 3 }, if q { 2.0 } else { 100.0 }),
    ];
    // "until commit nothing is visible outside, commit applies all at once" on a recovered database
    {
        use crate::props::c06::{Act, Finals, Kind, VisBody};
        let init = vec![("x", "a", "0"), ("y", "b", "0")];
        let reader = vec![Act::SnapRead(vec![("x", "a"), ("y", "b")])];
        v.push(BodySpec { body: Arc::new(VisBody { name: "sw-tx(x.a,y.b) || read_tx [reopened]", kind: Kind::Sw, workers: 0, keyspaces: vec!["x", "y"], initial: init.clone(), prerotate: vec![], threads: vec![vec![Act::Tx(vec![("x", "a", "1"), ("y", "b", "1")])], reader.clone()], finals: Finals::None }), bound: 2, secs: if q { 2.0 } else { 60.0 } });
        v.push(BodySpec { body: Arc::new(VisBody { name: "occ-tx(x.a,y.b) || read_tx [reopened]", kind: Kind::Occ, workers: 0, keyspaces: vec!["x", "y"], initial: init, prerotate: vec![], threads: vec![vec![Act::Tx(vec![("x", "a", "1"), ("y", "b", "1")])], reader], finals: Finals::None }), bound: 2, secs: if q { 2.0 } else { 60.0 } });
    }
    if !q {
        v.push(b(CounterBody { name: "single-writer: 3 x (tx get insert commit)", occ: false, modes: vec![Tx, Tx, Tx] }, 2, 300.0));
        v.push(b(CounterBody { name: "optimistic: 2 x (tx get insert commit)", occ: true, modes: vec![Tx, Tx] }, 3, 300.0));
        v.push(b(CounterBody { name: "optimistic: tx || update_fetch helper || remove helper", occ: true, modes: vec![Tx, UpdateFetch, Remove] }, 2, 300.0));
    }
    v
}

pub fn run(tier: &str) -> i32 {
    let t0 = Instant::now();
    let mut o = Outcome::new("C08", tier, "model_checking");
    let q = tier == "quick";
    let mut recs = vec![];
    let mut all = std::collections::HashSet::new();
    let mut exhaustive = true;
    for (name, kind, full, depth, secs) in [
        ("single-writer", DbKind::SingleWriter, false, if q { 4 } else { 6 }, if q { 9.0 } else { 600.0 }),
        ("optimistic", DbKind::Optimistic, false, if q { 4 } else { 6 }, if q { 9.0 } else { 600.0 }),
        ("single-writer/full-alphabet", DbKind::SingleWriter, true, if q { 3 } else { 5 }, if q { 4.0 } else { 400.0 }),
    ] {
        let prop = TxLocalProp { kind, alphabet: alphabet(full) };
        let t = Instant::now();
        let rep = explore_min(&prop, depth, 2, t + Duration::from_secs_f64(secs), threads(), &merge_wit);
        o.cov_add("states", rep.programs);
        o.cov_add("transitions", rep.transitions.max(1));
        o.cov_add("traces_validated_against_impl", rep.programs);
        all.extend(rep.outcomes.iter().copied());
        for s in rep.samples.iter().take(2) {
            o.sample(json!({"pass": name, "program": s}));
        }
        recs.push(json!({"pass": name, "depth_requested": depth, "depth_completed_exhaustively": rep.completed_depth, "capped_by_time": rep.capped, "programs_per_depth": rep.per_level, "distinct_outcomes": rep.outcomes.len(), "raw_violating_programs": rep.violations.len()}));
        if rep.capped {
            exhaustive = false;
        }
        if rep.completed_depth < 2 {
            o.machinery_errors.push(format!("pass {name} completed only depth {}", rep.completed_depth));
        }
        for (sig, f) in triage(&prop, rep.violations) {
            o.findings.push(Finding { sig, engine: "E1-seqcheck(tx)".into(), variant: json!({"pass": name}), program: f.program.iter().map(|x| x.to_string()).collect(), clause: f.v.clause.clone(), detail: f.v.detail.clone() });
        }
    }
    o.cov("passes", json!(recs));
    o.cov("distinct_outcomes", json!(all.len()));
    o.cov("exhaustive", json!(exhaustive));
    fold_e3(&mut o, "C08", tier, &crate::e3::with_variants(bodies(tier), tier), "e3_");
    o.cov("rule", json!("E1: for both transactional databases, every program up to the depth of in-transaction operations {insert, remove, take, fetch_update and update_fetch with closures keep/change/delete} on overlapping keys of two keyspaces over a non-empty snapshot (data in a table and in the memtable), ending in commit / rollback / drop; after EVERY step every read method inside the transaction must equal the snapshot overlaid with its own writes, return values must be the documented previous/new value, and an outside observer must still see the initial state; after the ending the outside view (all read methods, and again after a reopen) must be exactly the final write per key (commit) or unchanged (rollback/drop). E3: competing increment transactions on both databases under every schedule up to the preemption bound: the final counter equals the number of committed increments, single-writer critical sections never overlap."));
    o.assumptions = vec!["one open transaction in the E1 part (interleaved transactions are C07's and the E3 bodies')".into()];
    o.wall_s = t0.elapsed().as_secs_f64();
    finish(o)
}

pub fn replay(v: &serde_json::Value) -> i32 {
    if v["engine"] == "E3-schedcheck" {
        let tier = v["variant"]["tier"].as_str().unwrap_or("quick");
        let bi = v["variant"]["body_index"].as_u64().unwrap_or(0) as usize;
        let choices: Vec<usize> = v["variant"]["choices"].as_array().map(|a| a.iter().filter_map(|c| c.as_u64().map(|c| c as usize)).collect()).unwrap_or_default();
        return match crate::e3::with_variants(bodies(tier), tier).get(bi) {
            Some(b) => replay_schedule(&*b.body, &choices),
            None => 2,
        };
    }
    let kind = if v["variant"]["pass"].as_str().unwrap_or("").starts_with("optimistic") { DbKind::Optimistic } else { DbKind::SingleWriter };
    let prop = TxLocalProp { kind, alphabet: alphabet(true) };
    let ops: Option<Vec<TOp>> = v["program"].as_array().map(|a| a.iter().filter_map(|s| s.as_str()).map(parse_top).collect()).unwrap_or(None);
    let Some(ops) = ops else { return 2 };
    match run_program(&prop, &ops, 0, None) {
        RunResult::Ok { .. } => {
            println!("replay: program satisfied the oracle");
            0
        }
        RunResult::Bad(v) => {
            println!("replay: VIOLATION clause={} :: {}", v.clause, v.detail);
            1
        }
    }
}
