//! C09 — persist(SyncData|SyncAll) makes all earlier writes power-loss durable (E2: power-loss images at every call).

use crate::props::c02::*;
use crate::report::*;
use crate::seqprop::*;
use crate::world::*;
use serde_json::json;
use std::time::{Duration, Instant};

fn alpha(tx: bool, full: bool) -> Alpha {
    let mut a = Alpha::empty();
    a.ins = vec![(0, 0, 0)];
    let it = |ks, k, v| Item { ks, k, v };
    a.extra = vec![
        Op::Persist { mode: 0 },
        Op::Persist { mode: 1 },
        Op::Persist { mode: 2 },
        Op::BatchD(vec![it(0, 1, Some(1)), it(1, 0, Some(0))], 0),
        Op::BatchD(vec![it(0, 1, Some(0)), it(1, 0, Some(1))], 3),
    ];
    if full {
        a.extra.push(Op::BatchD(vec![it(0, 2, Some(1)), it(1, 1, Some(0))], 1));
        a.extra.push(Op::BatchD(vec![it(0, 2, Some(0)), it(1, 1, Some(1))], 2));
        a.rem = vec![(0, 0)];
    }
    if tx {
        a.extra.push(Op::TxD(vec![it(0, 2, Some(1)), it(1, 1, None)], 2));
        a.extra.push(Op::TxD(vec![it(0, 2, Some(0))], 0));
    }
    a.rotate = vec![0];
    a.jrot = true;
    a.reopen = true;
    a.max_reopen = 1;
    a
}

fn plans(tier: &str, manual: bool) -> Vec<Plan> {
    let d = Cfg { manual_persist: manual, ..Cfg::default2() };
    let q = tier == "quick";
    let mut v = vec![
        Plan { fixed: None, name: if manual { "manual-persist" } else { "auto-persist" }, cfg: d.clone(), prefix: "", alpha: alpha(false, !q), depth: if q { 2 } else { 4 } },
        Plan {
            fixed: Some(vec![
                vec!["ins x.a=1", "persist SyncAll", "ins x.a=2"],
                vec!["ins x.a=1", "persist Buffer", "persist SyncData", "batch:none [x.ab=2 y.a=1]"],
                vec!["ins y.a=1", "ins x.a=1", "rotate x", "step+jrot WorkerMessage:Flush", "ins x.a=2", "persist Buffer"],
                vec!["batch:syncall [x.ab=1 y.a=2]", "ins x.a=1", "reopen", "ins x.a=2"],
                vec!["ins x.a=1", "rotate x", "step WorkerMessage:Flush", "persist SyncData", "ins x.b=2", "rotate x", "step+jrot WorkerMessage:Flush"],
            ]),
            name: if manual { "manual/fixed" } else { "auto/fixed" },
            cfg: d.clone(),
            prefix: "",
            alpha: Alpha::empty(),
            depth: 0,
        },
    ];
    if !manual {
        // journal ids with different digit counts (9.jnl sealed, 10.jnl active): the synced overwrite in 10.jnl must win
        v.push(Plan { fixed: Some(vec![vec!["persist SyncAll", "ins y.b=1"]]), name: "auto/journals-9-and-10", cfg: d.clone(), prefix: "journals_9_and_10", alpha: Alpha::empty(), depth: 0 });
    }
    if !manual || !q {
        v.push(Plan { fixed: None, name: if manual { "manual/single-writer-tx" } else { "auto/single-writer-tx" }, cfg: Cfg { kind: DbKind::SingleWriter, ..d.clone() }, prefix: "", alpha: { let mut a = alpha(true, false); a.extra.retain(|o| matches!(o, Op::TxD(..) | Op::Persist { mode: 2 })); a.jrot = false; a }, depth: if q { 2 } else { 3 } });
    }
    if !q {
        v.push(Plan { fixed: None, name: if manual { "manual/two-sealed-journals" } else { "auto/two-sealed-journals" }, cfg: d.clone(), prefix: "two_sealed_journals", alpha: alpha(false, false), depth: 2 });
        v.push(Plan { fixed: None, name: if manual { "manual/optimistic-tx" } else { "auto/optimistic-tx" }, cfg: Cfg { kind: DbKind::Optimistic, ..d.clone() }, prefix: "", alpha: { let mut a = alpha(true, false); a.extra.retain(|o| matches!(o, Op::TxD(..) | Op::Persist { mode: 1 })); a.jrot = false; a }, depth: 3 });
    }
    v
}

pub fn run(tier: &str) -> i32 {
    let t0 = Instant::now();
    let mut o = Outcome::new("C09", tier, "fault_enumeration");
    let q = tier == "quick";
    o.cov("exhaustive", json!(true));
    let s = |x: f64| Duration::from_secs_f64(x);
    crash_explore_mode(&mut o, &plans(tier, false), Instant::now() + s(if q { 16.0 } else { 400.0 }), q, 0, "powerloss_auto_", CrashMode::PowerLoss);
    crash_explore_mode(&mut o, &plans(tier, true), Instant::now() + s(if q { 14.0 } else { 400.0 }), q, 0, "powerloss_manual_", CrashMode::PowerLoss);
    // manual journal persist + process crash: persist(Buffer) is the fence
    crash_explore_mode(&mut o, &plans(tier, true), Instant::now() + s(if q { 12.0 } else { 300.0 }), q, 0, "crash_manual_", CrashMode::Crash);
    // automatic journal persist + process crash: a batch or transaction committed with durability None is only safe
    // after a later persist(Buffer) (or any write with the default durability)
    crash_explore_mode(&mut o, &plans(tier, false), Instant::now() + s(if q { 10.0 } else { 300.0 }), q, 0, "crash_auto_", CrashMode::Crash);
    o.cov("rule", json!("programs = all maximal programs up to the depth over {insert, batch with durability None/Buffer/SyncData/SyncAll, transaction with durability, persist(Buffer|SyncData|SyncAll), rotate, every queued worker message with and without journal rotation, reopen (= clean drop)}, with automatic and with manual journal persist; each runs once under the shim, which keeps a shadow 'durable' tree (a file's content as of its last fsync/fdatasync; directory operations kept) and images it before EVERY numbered call; every distinct power-loss image is recovered by the real code: open must succeed and the content must equal the model after p operations with fence <= p <= acked+1, where the fence is the last acknowledged persist(SyncData|SyncAll) / commit with such durability / finished journal rotation / database drop. With manual journal persist the same programs are also judged on process-crash images with persist(Buffer) (or any stronger fence) as the fence; with automatic persist likewise, where commits with durability None are only covered by a later fence."));
    o.assumptions = vec![
        "the power-loss adversary drops ALL file data that was not explicitly synced and keeps directory operations (weaker than a real disk, never stronger); reordering inside the device and loss of un-fsynced directory entries are not modelled".into(),
        "lsm-tree's raw-syscall rename of `current` is invisible to the shim: a file that appears without a visible creation is taken as synced (its temp file is fsynced before the rename)".into(),
        "single-threaded driver".into(),
    ];
    o.wall_s = t0.elapsed().as_secs_f64();
    finish(o)
}

pub fn replay(v: &serde_json::Value) -> i32 {
    println!("replay: power-loss images only exist under the shim; re-run `./run C09 quick`. Plain kill replay follows.");
    crate::props::c02::replay(v)
}
