//! C10 — a journal file is deleted only when nothing in it is still needed (E1 + crash image after every deletion).

use crate::core::Probe;
use crate::report::*;
use crate::seqprop::*;
use crate::seqrun::*;
use crate::world::*;
use serde_json::json;
use std::time::{Duration, Instant};

fn alpha(three: bool, deletes: bool) -> Alpha {
    let mut a = Alpha::empty();
    a.ins = vec![(0, 0, 0), (1, 0, 0)];
    if three {
        a.ins.push((2, 0, 0));
    }
    a.batches = vec![vec![Item { ks: 0, k: 1, v: Some(1) }, Item { ks: 1, k: 1, v: Some(1) }]];
    a.rotate = if three { vec![0, 1, 2] } else { vec![0, 1] };
    a.jrot = true;
    a.reopen = true;
    a.max_reopen = 1;
    if deletes {
        a.delete = vec![1];
    }
    a
}

fn mk(name: &str, cfg: Cfg, alpha: Alpha, pfx: &str, depth: usize, min_depth: usize, secs: f64) -> Pass {
    let mut prop = SeqProp::new("C10", cfg, alpha);
    prop.prefix = prefix(pfx);
    prop.probe = Probe::Lite;
    prop.journal_oracle = true;
    Pass { name: name.to_string(), prop, depth, min_depth, budget: Duration::from_secs_f64(secs), dedup_extra: 0, dedup_budget: Duration::ZERO }
}

pub fn passes(tier: &str) -> Vec<Pass> {
    let d = Cfg::default2();
    let three = Cfg { nks: 3, ..d.clone() };
    let q = tier == "quick";
    let mut v = vec![
        mk("2ks", d.clone(), alpha(false, false), "", if q { 6 } else { 8 }, if q { 4 } else { 5 }, if q { 8.0 } else { 300.0 }),
        mk("2ks/two-sealed-journals", d.clone(), alpha(false, true), "two_sealed_journals", if q { 5 } else { 7 }, 3, if q { 8.0 } else { 300.0 }),
        mk("2ks+delete", d.clone(), alpha(false, true), "", if q { 6 } else { 7 }, 4, if q { 6.0 } else { 200.0 }),
        mk("3ks", three.clone(), alpha(true, false), "", if q { 5 } else { 7 }, 3, if q { 6.0 } else { 300.0 }),
        // journaling limit at its minimum: each journal rotation asks the keyspaces pinning the oldest journal to rotate
        mk("2ks/small-journal-limit", Cfg { maxj: true, ..d.clone() }, alpha(false, false), "", if q { 5 } else { 7 }, 3, if q { 4.0 } else { 200.0 }),
    ];
    if !q {
        v.push(mk("3ks/tiny", Cfg { tiny: true, ..three.clone() }, alpha(true, true), "", 4, 3, 200.0));
        v.push(mk("2ks/sealed+lagging-deep", d.clone(), alpha(false, false), "two_sealed_journals", 6, 3, 300.0));
    }
    v
}

pub fn bodies(tier: &str) -> Vec<crate::e3::BodySpec> {
    use crate::props::c06::{Act, Finals, Kind, VisBody};
    use std::sync::Arc;
    let q = tier == "quick";
    vec![crate::e3::BodySpec {
        // a bulk ingestion into y (flushes y and registers tables under the journal lock) against a removal in y, then the
        // worker rotates the journal and evicts: the acknowledged removal must survive a crash
        body: Arc::new(VisBody { name: "ingest y || remove y.a || worker: journal rotation + flush x + maintenance; crash image [jrot] [focus:write-path]", kind: Kind::Plain, workers: 1, keyspaces: vec!["x", "y"], initial: vec![("x", "a", "0"), ("y", "a", "0")], prerotate: vec!["x"], threads: vec![vec![Act::Ingest("y", vec![("b", "5")])], vec![Act::Ins(("y", "a", "-"))]], finals: Finals::CrashImage }),
        bound: if q { 1 } else { 2 },
        secs: if q { 4.0 } else { 200.0 },
    }, crate::e3::BodySpec {
        // x has a sealed memtable and a queued flush; the worker's flush rotates the journal (position override) and runs
        // journal maintenance; meanwhile a writer inserts into y. A crash image taken after everything was acknowledged
        // must still hold y's write, whatever journal files were deleted.
        body: Arc::new(VisBody { name: "worker: journal rotation + flush x + maintenance || insert y; crash image [jrot]", kind: Kind::Plain, workers: 1, keyspaces: vec!["x", "y"], initial: vec![("x", "a", "0")], prerotate: vec!["x"], threads: vec![vec![Act::Ins(("y", "a", "1"))]], finals: Finals::CrashImage }),
        bound: 2,
        secs: if q { 5.0 } else { 200.0 },
    }, crate::e3::BodySpec {
        // the same with y's memtable holding older data and a second writer on x
        body: Arc::new(VisBody { name: "worker: journal rotation + flush x + maintenance || insert y || insert x; crash image [jrot]", kind: Kind::Plain, workers: 1, keyspaces: vec!["x", "y"], initial: vec![("x", "a", "0"), ("y", "b", "0")], prerotate: vec!["x"], threads: vec![vec![Act::Ins(("y", "a", "1"))], vec![Act::Ins(("x", "b", "1"))]], finals: Finals::CrashImage }),
        bound: if q { 1 } else { 2 },
        secs: if q { 4.0 } else { 200.0 },
    }]
}

pub fn run(tier: &str) -> i32 {
    let t0 = Instant::now();
    let mut o = Outcome::new("C10", tier, "model_checking");
    let ps = with_dedup(passes(tier), tier);
    let wit = run_passes(&mut o, &ps);
    o.cov("rule", json!("every enabled program over {insert into each keyspace, two-keyspace batch, rotate each keyspace, every queued worker message in every order with and without journal rotation, delete keyspace, reopen} up to the per-pass depth is executed on the real code; whenever a *.jnl file disappears: it must be the oldest, every record the harness logged into it must be <= its keyspace's highest persisted seqno at that instant, and a crash image taken right then must recover exactly the acknowledged state; at the end of every program all keyspaces are flushed and the queue drained: journal_count()==1 and one journal file on disk."));
    o.assumptions = vec![
        "no clear() in the alphabet (a cleared keyspace has no persisted seqno and legitimately pins journals; the statement's 'returns to one' clause does not cover it)".into(),
        "journal rotation is triggered through the cfg-gated journal position override (the real threshold is 64 MB)".into(),
    ];
    if wit.journal_deleted == 0 || wit.journal_rotated == 0 {
        o.machinery_errors.push(format!("reachability witness missing: {:?}", wit));
    }
    crate::e3::fold_e3(&mut o, "C10", tier, &crate::e3::with_variants(bodies(tier), tier), "e3_");
    o.wall_s = t0.elapsed().as_secs_f64();
    finish(o)
}

pub fn replay(v: &serde_json::Value) -> i32 {
    if v["engine"] == "E3-schedcheck" {
        let tier = v["variant"]["tier"].as_str().unwrap_or("quick");
        let bi = v["variant"]["body_index"].as_u64().unwrap_or(0) as usize;
        let choices: Vec<usize> = v["variant"]["choices"].as_array().map(|a| a.iter().filter_map(|c| c.as_u64().map(|c| c as usize)).collect()).unwrap_or_default();
        return match crate::e3::with_variants(bodies(tier), tier).get(bi) {
            Some(b) => crate::e3::replay_schedule(&*b.body, &choices),
            None => 2,
        };
    }
    let name = v["variant"]["pass"].as_str().unwrap_or("");
    let plen = v["variant"]["prefix_len"].as_u64().unwrap_or(0) as usize;
    let program: Vec<String> = v["program"].as_array().map(|a| a.iter().filter_map(|s| s.as_str().map(String::from)).collect()).unwrap_or_default();
    for tier in ["quick", "thorough"] {
        if let Some(p) = passes(tier).into_iter().find(|p| p.name == name) {
            return replay_with(&p, &program, plen);
        }
    }
    2
}
