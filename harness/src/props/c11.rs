//! C11 — after reopening, new writes supersede everything recovered (E1; the crash-image variant runs in C02's suffix).

use crate::core::Probe;
use crate::report::*;
use crate::seqprop::*;
use crate::seqrun::*;
use crate::world::*;
use serde_json::json;
use std::time::{Duration, Instant};

fn alpha() -> Alpha {
    let mut a = Alpha::empty();
    a.ins = vec![(0, 0, 0), (0, 2, 1), (1, 0, 0)];
    a.rem = vec![(0, 0), (1, 0)];
    a.batches = vec![vec![Item { ks: 0, k: 1, v: Some(1) }, Item { ks: 1, k: 1, v: None }]];
    a.clear = vec![0];
    a.ingest = vec![(0, vec![(0, Some(1)), (2, None)]), (1, vec![(1, Some(0))])];
    a.rotate = vec![0, 1];
    a.major = vec![0];
    a.jrot = true;
    a.create = vec![2];
    a.delete = vec![1, 2];
    a
}

fn mk(name: &str, cfg: Cfg, pfx: &str, reopens: usize, depth: usize, min_depth: usize, secs: f64) -> Pass {
    let mut prop = SeqProp::new("C11", cfg, alpha());
    prop.prefix = prefix(pfx);
    prop.probe = Probe::Lite;
    prop.supersede_reopens = reopens;
    prop.journal_oracle = false;
    Pass { name: name.to_string(), prop, depth, min_depth, budget: Duration::from_secs_f64(secs), dedup_extra: 0, dedup_budget: Duration::ZERO }
}

pub fn passes(tier: &str) -> Vec<Pass> {
    let d = Cfg::default2();
    let q = tier == "quick";
    let mut v = vec![
        mk("empty-start/1-reopen", d.clone(), "", 1, if q { 3 } else { 5 }, 2, if q { 12.0 } else { 600.0 }),
        mk("empty-start/2-reopens", d.clone(), "", 2, if q { 2 } else { 4 }, 2, if q { 5.0 } else { 300.0 }),
        mk("last-level+L0+memtable", d.clone(), "l6_l0_mem", 1, if q { 2 } else { 4 }, 1, if q { 5.0 } else { 300.0 }),
        mk("tombstone-over-value", d.clone(), "tomb_over_value", 2, if q { 2 } else { 4 }, 1, if q { 5.0 } else { 300.0 }),
        mk("two-sealed-journals", d.clone(), "two_sealed_journals", 1, if q { 2 } else { 4 }, 1, if q { 5.0 } else { 300.0 }),
        mk("sealed-journal-all-record-kinds", d.clone(), "sealed_journal_all_kinds", 1, if q { 1 } else { 3 }, 1, if q { 3.0 } else { 200.0 }),
        mk("sealed-journal-half-flushed", d.clone(), "sealed_journal_x_half_flushed", 1, if q { 1 } else { 3 }, 1, if q { 3.0 } else { 200.0 }),
        mk("meta-keyspace-highest", d.clone(), "meta_highest", 3, if q { 1 } else { 5 }, 1, if q { 4.0 } else { 300.0 }),
    ];
    if !q {
        v.push(mk("blob", Cfg { blob: true, ..d.clone() }, "blob_overwritten", 2, 4, 2, 300.0));
        v.push(mk("tiny", Cfg { tiny: true, ..d.clone() }, "", 2, 4, 2, 300.0));
    }
    v
}

pub fn run(tier: &str) -> i32 {
    let t0 = Instant::now();
    let mut o = Outcome::new("C11", tier, "model_checking");
    let ps = with_dedup(passes(tier), tier);
    for p in &ps {
        // journal bookkeeping for the seqno clause
        let _ = p;
    }
    let wit = run_passes(&mut o, &ps);
    // crash pre-states: the journal of a short history cut at every k-th byte (torn tail), then the superseding suffix
    {
        use crate::crash::*;
        use crate::explore::fresh_dir;
        let shapes: Vec<Vec<&str>> = vec![vec!["ins x.a=1", "batch [x.ab=2 y.a=1]"], vec!["ins x.a=1", "rem x.a", "ins y.b=2"], vec!["batch [x.a=1 y.a=1]", "clear x", "ins x.b=1"]];
        let stride = if tier == "quick" { 3 } else { 1 };
        let mut cases = 0u64;
        for sh in &shapes {
            let ops: Vec<Op> = sh.iter().map(|s| Op::parse(s).unwrap()).collect();
            let dir = fresh_dir();
            let Ok((w, hist)) = record(dir.clone(), Cfg::default2(), &ops) else { continue };
            let img = fresh_dir();
            copy_tree(&dir, &img).expect("image");
            let j = active_journal(&img).expect("journal");
            let used = used_len(&j).unwrap_or(0);
            let full = std::fs::metadata(&j).map(|m| m.len()).unwrap_or(0);
            let jname = j.file_name().unwrap().to_string_lossy().into_owned();
            drop(w);
            let cuts: Vec<u64> = (0..=used).step_by(stride).collect();
            let findings = std::sync::Mutex::new(vec![]);
            let n = std::sync::atomic::AtomicU64::new(0);
            crate::par::par_for(cuts.len() * 2, threads(), Instant::now() + Duration::from_secs_f64(if tier == "quick" { 6.0 } else { 200.0 }), |i| {
                let c = cuts[i / 2];
                let pad = i % 2 == 1;
                let d2 = fresh_dir();
                if copy_tree(&img, &d2).is_err() || cut_file(&d2.join(&jname), c, if pad { Some(full) } else { None }).is_err() {
                    let _ = std::fs::remove_dir_all(&d2);
                    return;
                }
                if let Recovered::Ok { content, inconsistent: None } = recover_and_observe(&d2, &Cfg::default2()) {
                    if hist.states.contains(&content) {
                        n.fetch_add(1, std::sync::atomic::Ordering::Relaxed);
                        if let Err((clause, detail)) = crate::props::c02::suffix_check(&d2, &Cfg::default2(), &content) {
                            findings.lock().unwrap().push(Finding {
                                sig: format!("crash-prestate.{clause}|{}", if pad { "zero-padded" } else { "eof" }),
                                engine: "E2-bytecut+suffix".into(),
                                variant: json!({"cut": c, "pad": pad}),
                                program: sh.iter().map(|s| s.to_string()).collect(),
                                clause: format!("crash-prestate.{clause}"),
                                detail: format!("journal cut at byte {c}, recovered {}, then overwrite/remove/reopen: {detail}", show_content(&content)),
                            });
                        }
                    }
                }
                let _ = std::fs::remove_dir_all(&d2);
            });
            cases += n.load(std::sync::atomic::Ordering::Relaxed);
            let _ = std::fs::remove_dir_all(&img);
            let mut f = findings.into_inner().unwrap();
            f.sort_by_key(|x| (x.sig.clone(), x.variant["cut"].as_u64().unwrap_or(0)));
            o.findings.extend(f);
        }
        o.cov("crash_prestates_with_superseding_suffix", json!(cases));
        o.cov_add("states", cases);
        o.cov_add("traces_validated_against_impl", cases);
    }
    o.cov("rule", json!("pre-reopen histories = every enabled program up to the per-pass depth over {insert, remove, batch, clear, ingestion, rotate, every queued worker message (+journal rotation), major compaction, create/delete keyspace}, from the empty database and from prepared states (data in last level + L0 + memtable, tombstone over value, two sealed journals with a lagging keyspace, meta keyspace holding the highest seqno); after each history the oracle reopens 1-3 times and after every reopen checks: next seqno > every seqno in every user keyspace's memtables/tables and in every journal record still on disk, a snapshot taken right after open equals the handles' view, every overwrite replaces and every remove hides what was recovered (all read methods), a new snapshot shows recovered data plus the new writes, a created/deleted keyspace stays so; then a final reopen must reproduce the model. Reopen fidelity itself is re-synchronised (C04's clause)."));
    o.assumptions = vec![
        "the model is re-synchronised to the implementation after each reopen (differences there belong to C04/C02 and are counted, not judged here)".into(),
        "the internal meta keyspace is not observable from outside; that the counter is above it is covered indirectly (create/delete after reopen must behave)".into(),
    ];
    if wit.reopened == 0 {
        o.machinery_errors.push(format!("reachability witness missing: {:?}", wit));
    }
    o.wall_s = t0.elapsed().as_secs_f64();
    finish(o)
}

pub fn replay(v: &serde_json::Value) -> i32 {
    let name = v["variant"]["pass"].as_str().unwrap_or("");
    let plen = v["variant"]["prefix_len"].as_u64().unwrap_or(0) as usize;
    let program: Vec<String> = v["program"].as_array().map(|a| a.iter().filter_map(|s| s.as_str().map(String::from)).collect()).unwrap_or_default();
    for tier in ["quick", "thorough"] {
        if let Some(p) = passes(tier).into_iter().find(|p| p.name == name) {
            return replay_with(&p, &program, plen);
        }
    }
    2
}
