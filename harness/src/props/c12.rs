//! C12 — keyspaces are isolated, and a deleted keyspace never comes back (E1 with provenance values; E2 crash points).

use crate::core::Probe;
use crate::report::*;
use crate::seqprop::*;
use crate::seqrun::*;
use crate::world::*;
use serde_json::json;
use std::time::{Duration, Instant};

pub fn alpha(full: bool) -> Alpha {
    let mut a = Alpha::empty();
    a.ins = vec![(0, 0, 0), (1, 0, 0), (2, 0, 0)];
    if full {
        a.ins.push((1, 1, 1));
        a.rem = vec![(1, 0)];
        a.batches = vec![
            vec![Item { ks: 0, k: 1, v: Some(1) }, Item { ks: 1, k: 1, v: Some(1) }],
            // the item of the keyspace that gets deleted comes first
            vec![Item { ks: 1, k: 2, v: Some(0) }, Item { ks: 0, k: 2, v: Some(0) }],
        ];
    }
    a.rotate = vec![1];
    a.create = vec![0, 1, 2];
    a.delete = vec![1, 2];
    a.jrot = full;
    a.reopen = true;
    a.max_reopen = 2;
    a
}

fn mk(name: &str, cfg: Cfg, alpha: Alpha, pfx: &str, depth: usize, min_depth: usize, secs: f64) -> Pass {
    let mut prop = SeqProp::new("C12", Cfg { prov: true, ..cfg }, alpha);
    prop.prefix = prefix(pfx);
    prop.probe = Probe::Lite;
    prop.keyspace_oracle = true;
    prop.c12_ops = true;
    Pass { name: name.to_string(), prop, depth, min_depth, budget: Duration::from_secs_f64(secs), dedup_extra: 0, dedup_budget: Duration::ZERO }
}

pub fn passes(tier: &str) -> Vec<Pass> {
    let d = Cfg::default2();
    let q = tier == "quick";
    let mut v = vec![
        mk("names-xyz", d.clone(), alpha(false), "", if q { 5 } else { 7 }, if q { 4 } else { 5 }, if q { 16.0 } else { 400.0 }),
        mk("names-xyz/full", d.clone(), alpha(true), "", if q { 4 } else { 5 }, 3, if q { 10.0 } else { 300.0 }),
        mk("two-sealed-journals", d.clone(), alpha(false), "two_sealed_journals", if q { 4 } else { 6 }, 3, if q { 10.0 } else { 300.0 }),
    ];
    {
        let mut a = Alpha::empty();
        a.ins = vec![(1, 1, 0)];
        a.rotate = vec![1, 2];
        a.delete = vec![0, 2];
        a.reopen = true;
        a.max_reopen = 1;
        v.push(mk("delete-while-journals-pinned", d.clone(), a, "two_sealed_journals_z", if q { 4 } else { 6 }, 4, if q { 6.0 } else { 200.0 }));
    }
    for (name, kind) in [("tx-single-writer/same-key-in-several-keyspaces", DbKind::SingleWriter), ("tx-optimistic/same-key-in-several-keyspaces", DbKind::Optimistic)] {
        let mut a = Alpha::empty();
        let it = |ks, k, v| Item { ks, k, v };
        a.ins = vec![(1, 0, 1)];
        a.txs = vec![
            vec![it(0, 0, Some(0)), it(1, 0, Some(0))],
            vec![it(0, 2, Some(1)), it(1, 0, None), it(1, 2, Some(1))],
            vec![it(0, 0, None), it(1, 0, Some(1)), it(2, 0, Some(0))],
        ];
        a.create = vec![2];
        a.delete = vec![1];
        a.reopen = true;
        a.max_reopen = 1;
        v.push(mk(name, Cfg { kind, ..d.clone() }, a, "", if q { 3 } else { 5 }, 2, if q { 3.0 } else { 150.0 }));
    }
    if !q {
        v.push(mk("tiny", Cfg { tiny: true, ..d.clone() }, alpha(false), "", 6, 4, 300.0));
        v.push(mk("blob", Cfg { blob: true, ..d.clone() }, alpha(false), "", 6, 4, 300.0));
    }
    v
}

pub fn run(tier: &str) -> i32 {
    let t0 = Instant::now();
    let mut o = Outcome::new("C12", tier, "model_checking");
    let ps = with_dedup(passes(tier), tier);
    let wit = run_passes(&mut o, &ps);
    // E2 part: a crash before every file-mutating call of create/delete/reopen programs
    let q = tier == "quick";
    let plans = vec![
        crate::props::c02::Plan { fixed: Some(crate::props::c02::canonical_programs()), name: "canonical", cfg: Cfg { prov: true, ..Cfg::default2() }, prefix: "", alpha: Alpha::empty(), depth: 0 },
        crate::props::c02::Plan {
        fixed: None,
        name: "c12-crash",
        cfg: Cfg { prov: true, ..Cfg::default2() },
        prefix: "",
        alpha: {
            let mut a = Alpha::empty();
            a.ins = vec![(1, 0, 0), (2, 0, 0)];
            a.create = vec![2];
            a.delete = vec![1, 2];
            a.rotate = vec![1];
            a.reopen = true;
            a.max_reopen = 1;
            a
        },
        depth: if q { 3 } else { 4 },
    }];
    crate::props::c02::crash_explore(&mut o, &plans, Instant::now() + Duration::from_secs_f64(if q { 14.0 } else { 500.0 }), false, if q { 1 } else { 4 }, "e2_");
    o.cov("rule", json!("E1: every enabled program over names {x,y,z} with {create, open existing with other options, insert/remove/batch, delete with and without surviving handles, writes through old handles, drop old handle, rotate, every queued worker message (+journal rotation), reopen} up to the per-pass depth runs on the real code; values carry their provenance (keyspace incarnation), so after EVERY step: list/exists/count equal the model, every keyspace's content equals the model (a re-created name is empty, nothing of a deleted incarnation appears anywhere), writes through old handles return KeyspaceDeleted, and once the database is dropped the number of keyspace folders equals the number of keyspaces. E2: the same kind of programs under the shim, a crash image before every file-mutating call, recovered and compared with the model state before/after the in-flight operation."));
    o.assumptions = vec![
        "folder removal is asserted once the database has been dropped (sealed-journal watermarks and queued flush tasks are internal handles that legitimately keep a folder until then)".into(),
    ];
    if wit.reopened == 0 {
        o.machinery_errors.push(format!("reachability witness missing: {:?}", wit));
    }
    o.wall_s = t0.elapsed().as_secs_f64();
    finish(o)
}

pub fn replay(v: &serde_json::Value) -> i32 {
    if v["engine"] == "E2-crashcheck" {
        return crate::props::c02::replay(v);
    }
    let name = v["variant"]["pass"].as_str().unwrap_or("");
    let plen = v["variant"]["prefix_len"].as_u64().unwrap_or(0) as usize;
    let program: Vec<String> = v["program"].as_array().map(|a| a.iter().filter_map(|s| s.as_str().map(String::from)).collect()).unwrap_or_default();
    for tier in ["quick", "thorough"] {
        if let Some(p) = passes(tier).into_iter().find(|p| p.name == name) {
            return replay_with(&p, &program, plen);
        }
    }
    2
}
