//! C13 — fail-stop after a journal I/O failure (E2: an injected error on the n-th journal write/flush/sync, for every n).

use crate::crash::*;
use crate::explore::fresh_dir;
use crate::par::par_for;
use crate::props::c02::leaves;
use crate::report::*;
use crate::seqprop::*;
use crate::seqrun::threads;
use crate::shimrun::*;
use crate::world::*;
use serde_json::json;
use std::collections::{BTreeMap, BTreeSet};
use std::sync::Mutex;
use std::time::{Duration, Instant};

fn alpha(tx: bool) -> Alpha {
    let mut a = Alpha::empty();
    a.ins = vec![(0, 0, 0), (0, 2, 3), (0, 1, 4)];
    a.rem = vec![(0, 0)];
    a.clear = vec![0];
    let it = |ks, k, v| Item { ks, k, v };
    a.batches = vec![vec![it(0, 1, Some(1)), it(1, 0, Some(0))], vec![it(0, 0, Some(3)), it(0, 2, Some(3)), it(1, 0, Some(1))]];
    if tx {
        a.txs = vec![vec![it(0, 1, Some(0)), it(1, 1, Some(1))]];
    }
    a.extra = vec![Op::Persist { mode: 0 }, Op::Persist { mode: 2 }];
    a.steps = false;
    a
}

/// Background work in the alphabet: with manual journal persist the flush worker is the one whose `pos()` call
/// flushes buffered journal bytes — a failure there has no caller to report to, but must still stop all writes.
fn alpha_maint() -> Alpha {
    let mut a = Alpha::empty();
    a.ins = vec![(0, 0, 0), (1, 0, 1)];
    a.batches = vec![vec![Item { ks: 0, k: 1, v: Some(1) }, Item { ks: 1, k: 0, v: Some(0) }]];
    a.rotate = vec![0];
    a.steps = true;
    a.jrot = true;
    a
}

/// The operations the property names ("no write of any kind is acknowledged"): maintenance requests are not writes.
fn is_write(op: &Op) -> bool {
    matches!(op, Op::Ins { .. } | Op::Rem { .. } | Op::Clear { .. } | Op::Batch(_) | Op::BatchD(..) | Op::Tx(_) | Op::TxD(..) | Op::Persist { .. })
}

const PROBES: [&str; 6] = ["ins x.a=2", "rem x.ab", "clear y", "batch [x.b=1 y.a=1]", "persist Buffer", "persist SyncAll"];

// ------------------------------------------------------------------ E3: several writer threads
pub struct FaultBody {
    pub name: &'static str,
    /// the k-th journal operation after the threads start fails
    pub fail_at: i64,
    pub writers: usize,
    /// what writer t does: 'i' insert, 'b' batch commit, 'c' clear, 'r' remove (missing = insert)
    pub kinds: &'static str,
}

fn shim_arm(k: i64, errno: i32) -> bool {
    type ArmFn = unsafe extern "C" fn(libc::c_long, libc::c_int);
    unsafe {
        let sym = libc::dlsym(libc::RTLD_DEFAULT, b"fjallfs_arm_fail\0".as_ptr().cast());
        if sym.is_null() {
            return false;
        }
        let f: ArmFn = std::mem::transmute(sym);
        f(k as libc::c_long, errno);
        true
    }
}

fn shim_disarm() {
    type F = unsafe extern "C" fn();
    unsafe {
        let sym = libc::dlsym(libc::RTLD_DEFAULT, b"fjallfs_disarm\0".as_ptr().cast());
        if !sym.is_null() {
            let f: F = std::mem::transmute(sym);
            f();
        }
    }
}

impl crate::e3::Body for FaultBody {
    fn name(&self) -> String {
        self.name.to_string()
    }
    fn launch(&self, dir: &std::path::Path) -> crate::e3::Launched {
        use crate::sched::*;
        use std::sync::atomic::{AtomicUsize, Ordering};
        use std::sync::Arc;
        let db = fjall::Database::builder(dir).worker_threads_unchecked(0).open().expect("open");
        let ks = db.keyspace("x", fjall::KeyspaceCreateOptions::default).expect("ks");
        ks.insert("base", "0").expect("prep");
        let armed = shim_arm(self.fail_at, 5);
        let n = self.writers;
        let done = Arc::new(AtomicUsize::new(0));
        // (thread, call, ret, ok)
        let log: Arc<Mutex<Vec<(usize, u64, u64, bool)>>> = Arc::new(Mutex::new(vec![]));
        let mut handles = vec![];
        const NAMES: [&str; 3] = ["writer0", "writer1", "writer2"];
        const KEYS: [&str; 3] = ["a", "b", "c"];
        for t in 0..n {
            let (ks, done, log) = (ks.clone(), done.clone(), log.clone());
            let kind = self.kinds.as_bytes().get(t).copied().unwrap_or(b'i');
            let dbc = db.clone();
            handles.push(spawn_client(NAMES[t], move || {
                let call = sched().now();
                client_point("client.call");
                let ok = match kind {
                    b'b' => {
                        let mut b = dbc.batch();
                        b.insert(&ks, KEYS[t], "1");
                        b.insert(&ks, "z", "1");
                        b.commit().is_ok()
                    }
                    b'c' => ks.clear().is_ok(),
                    b'r' => ks.remove(KEYS[t]).is_ok(),
                    _ => ks.insert(KEYS[t], "1").is_ok(),
                };
                drop(dbc);
                let ret = sched().now();
                log.lock().unwrap().push((t, call, ret, ok));
                drop(ks);
                done.fetch_add(1, Ordering::SeqCst);
            }));
        }
        {
            let done = done.clone();
            handles.push(spawn_client("closer", move || {
                client_block_until(&|| done.load(Ordering::SeqCst) == n, "closer.wait_clients");
                shim_disarm();
                drop(ks);
                drop(db);
            }));
        }
        let judge = Box::new(move |_dir: &std::path::Path| -> Result<String, Violation> {
            if !armed {
                return Err(Violation::new("machinery.shim_not_loaded", "fjallfs_arm_fail not found (LD_PRELOAD missing)"));
            }
            let log = log.lock().unwrap().clone();
            let first_fail = log.iter().filter(|l| !l.3).map(|l| l.2).min();
            if let Some(ff) = first_fail {
                if let Some(bad) = log.iter().find(|l| l.3 && l.2 > ff) {
                    return Err(Violation::new(
                        "not_fail_stop.concurrent",
                        format!("a journal write failed and was reported at step {ff}, yet writer{} was acknowledged afterwards (called at step {}, returned Ok at step {}): {:?}", bad.0, bad.1, bad.2, log),
                    ));
                }
            }
            Ok(format!("{:?}", log.iter().map(|l| l.3).collect::<Vec<_>>()))
        });
        crate::e3::Launched { handles, judge }
    }
}

/// A journal failure inside fjall's own worker (journal rotation during a flush): the instance must be poisoned,
/// later writes refused, and dropping the database must still terminate.
pub struct WorkerFaultBody {
    pub fail_at: i64,
}

impl crate::e3::Body for WorkerFaultBody {
    fn name(&self) -> String {
        format!("worker rotates the journal, journal op #{} fails; writer; drop", self.fail_at)
    }
    fn launch(&self, dir: &std::path::Path) -> crate::e3::Launched {
        use crate::sched::*;
        use std::sync::atomic::{AtomicUsize, Ordering};
        use std::sync::Arc;
        let db = fjall::Database::builder(dir).worker_threads_unchecked(1).open().expect("open");
        let ks = db.keyspace("x", fjall::KeyspaceCreateOptions::default).expect("ks");
        ks.insert("base", "0").expect("prep");
        ks.rotate_memtable().expect("rotate");
        GLOBAL_FAKE_JOURNAL_POS.store(65_000_000, Ordering::Relaxed);
        let armed = shim_arm(self.fail_at, 5);
        let done = Arc::new(AtomicUsize::new(0));
        let log: Arc<Mutex<Vec<(u64, u64, bool)>>> = Arc::new(Mutex::new(vec![]));
        let poisoned_seen = Arc::new(AtomicUsize::new(0));
        let mut handles = vec![];
        {
            let (ks, done, log) = (ks.clone(), done.clone(), log.clone());
            handles.push(spawn_client("writer", move || {
                for k in ["a", "b"] {
                    let call = sched().now();
                    client_point("client.call");
                    let ok = ks.insert(k, "1").is_ok();
                    log.lock().unwrap().push((call, sched().now(), ok));
                }
                drop(ks);
                done.fetch_add(1, Ordering::SeqCst);
            }));
        }
        {
            let (done, poisoned_seen) = (done.clone(), poisoned_seen.clone());
            handles.push(spawn_client("closer", move || {
                client_block_until(&|| done.load(Ordering::SeqCst) == 1, "closer.wait_clients");
                // let the worker finish what is queued: wait until the flush queue is empty or the instance is poisoned
                client_block_until(&|| db.outstanding_flushes() == 0 || db.verif_is_poisoned(), "closer.wait_worker");
                if db.verif_is_poisoned() {
                    poisoned_seen.store(1, Ordering::SeqCst);
                    if ks.insert("late", "1").is_ok() {
                        poisoned_seen.store(2, Ordering::SeqCst);
                    }
                }
                shim_disarm();
                GLOBAL_FAKE_JOURNAL_POS.store(0, Ordering::Relaxed);
                drop(ks);
                drop(db);
            }));
        }
        let judge = Box::new(move |_dir: &std::path::Path| -> Result<String, Violation> {
            if !armed {
                return Err(Violation::new("machinery.shim_not_loaded", "fjallfs_arm_fail not found"));
            }
            if poisoned_seen.load(Ordering::SeqCst) == 2 {
                return Err(Violation::new("not_fail_stop.after_worker_failure", "the instance was poisoned by the worker's journal failure, yet a later insert was acknowledged"));
            }
            Ok(format!("poisoned={} writes={:?}", poisoned_seen.load(Ordering::SeqCst), log.lock().unwrap().iter().map(|l| l.2).collect::<Vec<_>>()))
        });
        crate::e3::Launched { handles, judge }
    }
}

pub fn bodies(tier: &str) -> Vec<crate::e3::BodySpec> {
    let q = tier == "quick";
    let b = |body: FaultBody, bound: usize, secs: f64| crate::e3::BodySpec { body: std::sync::Arc::new(body), bound, secs };
    let mut v = vec![
        b(FaultBody { name: "2 writers, 1st journal write fails", fail_at: 1, writers: 2, kinds: "ii" }, 2, if q { 3.0 } else { 120.0 }),
        b(FaultBody { name: "insert || batch commit, 1st journal write fails", fail_at: 1, writers: 2, kinds: "ib" }, 2, if q { 3.0 } else { 120.0 }),
        b(FaultBody { name: "clear || remove, 1st journal write fails", fail_at: 1, writers: 2, kinds: "cr" }, 2, if q { 3.0 } else { 120.0 }),
    ];
    for k in if q { vec![1i64, 2] } else { vec![1, 2, 3, 4] } {
        v.push(crate::e3::BodySpec { body: std::sync::Arc::new(WorkerFaultBody { fail_at: k }), bound: if q { 0 } else { 1 }, secs: if q { 3.0 } else { 60.0 } });
    }
    if !q {
        v.push(b(FaultBody { name: "3 writers, 2nd journal write fails", fail_at: 2, writers: 3, kinds: "iii" }, 2, 200.0));
        v.push(b(FaultBody { name: "batch || batch || insert, 2nd journal write fails", fail_at: 2, writers: 3, kinds: "bbi" }, 2, 200.0));
        v.push(b(FaultBody { name: "batch || clear, 1st journal write fails", fail_at: 1, writers: 2, kinds: "bc" }, 3, 200.0));
    }
    v
}

pub fn run(tier: &str) -> i32 {
    let t0 = Instant::now();
    let mut o = Outcome::new("C13", tier, "fault_enumeration");
    let q = tier == "quick";
    let d = Cfg::default2();
    let cfgs: Vec<(&str, Cfg, bool, usize)> = vec![
        ("auto-persist", d.clone(), false, if q { 2 } else { 3 }),
        ("manual-persist", Cfg { manual_persist: true, ..d.clone() }, false, if q { 2 } else { 3 }),
        ("single-writer-tx", Cfg { kind: DbKind::SingleWriter, ..d.clone() }, true, if q { 1 } else { 2 }),
        ("manual-persist+maintenance", Cfg { manual_persist: true, ..d.clone() }, false, if q { 3 } else { 4 }),
        ("auto-persist+maintenance", d.clone(), false, if q { 3 } else { 4 }),
    ];
    // jobs: (cfg index, program, n, errno, short)
    struct Job {
        ci: usize,
        prog: Vec<Op>,
        n: usize,
        errno: i32,
        short: Option<usize>,
    }
    // the fault-free run of every program (in parallel) tells how many journal operations there are to fail
    let mut fulls: Vec<(usize, Vec<Op>)> = vec![];
    let mut programs = 0;
    for (ci, (_name, cfg, tx, depth)) in cfgs.iter().enumerate() {
        let prop = SeqProp::new("C13", cfg.clone(), if _name.ends_with("+maintenance") { alpha_maint() } else { alpha(*tx) });
        for prog in leaves(&prop, *depth) {
            if _name.ends_with("+maintenance") && !prog.iter().any(|o| matches!(o, Op::Step { .. })) {
                continue;
            }
            programs += 1;
            let mut full = prog.clone();
            for p in PROBES {
                full.push(Op::parse(p).unwrap());
            }
            if *tx {
                full.push(Op::parse("tx [x.a=1 y.b=2]").unwrap());
            }
            fulls.push((ci, full));
        }
    }
    let jobs_m: Mutex<Vec<Job>> = Mutex::new(vec![]);
    par_for(fulls.len(), threads(), Instant::now() + Duration::from_secs(3600), |i| {
        let (ci, full) = &fulls[i];
        let run = run_driver(&cfgs[*ci].1, full, Mode::Log, &[("FJV_DRV_CONTINUE_ON_ERR", "1".into())]);
        let writes: Vec<(usize, u64)> = run.events.iter().filter(|e| e.jop > 0 && e.n >= run.init_counter).map(|e| (e.jop, if e.call == "write" { e.len } else { 0 })).collect();
        let mut mine = vec![];
        for (jop, wlen) in writes {
            for errno in [5, 28] {
                mine.push(Job { ci: *ci, prog: full.clone(), n: jop, errno, short: None });
                if wlen > 1 && errno == 5 {
                    mine.push(Job { ci: *ci, prog: full.clone(), n: jop, errno, short: Some(1) });
                    mine.push(Job { ci: *ci, prog: full.clone(), n: jop, errno, short: Some((wlen / 2) as usize) });
                }
            }
        }
        jobs_m.lock().unwrap().extend(mine);
    });
    let mut jobs = jobs_m.into_inner().unwrap();
    // deterministic order (shortest programs first, then by text)
    // (programs with background work need two more steps to get there: ranked as if they were two shorter)
    jobs.sort_by_key(|j| (j.prog.len() - if j.ci >= 3 { 2 } else { 0 }, j.ci, j.prog.iter().map(|o| o.to_string()).collect::<Vec<_>>().join(";"), j.n, j.errno, j.short));
    // the injection budget starts once the job list exists
    let deadline = Instant::now() + Duration::from_secs_f64(if q { 30.0 } else { 1100.0 });
    let findings: Mutex<Vec<Finding>> = Mutex::new(vec![]);
    let tally = Mutex::new(BTreeMap::<String, u64>::new());
    let required_core = jobs.iter().take_while(|j| j.prog.len() <= PROBES.len() + 1).count();
    let (done, to) = crate::par::par_for_core(jobs.len(), required_core, threads(), deadline, |ji| {
        let job = &jobs[ji];
        let (cname, cfg, _, _) = &cfgs[job.ci];
        let nprobe = job.prog.len() - if cfgs[job.ci].2 { PROBES.len() + 1 } else { PROBES.len() };
        // model states after each op (fault-free, in-process)
        // expected final state when nothing fails at all (short writes that write_all completes)
        let full_final = match record(fresh_dir(), cfg.clone(), &job.prog) {
            Ok((w, h)) => {
                drop(w);
                h.states.last().cloned()
            }
            Err(_) => None,
        };
        let hist = match record(fresh_dir(), cfg.clone(), &job.prog[..nprobe]) {
            Ok((w, h)) => {
                drop(w);
                h
            }
            Err(_) => return,
        };
        let run = run_driver(cfg, &job.prog, Mode::Fail { jop: job.n, errno: job.errno, short: job.short }, &[("FJV_DRV_CONTINUE_ON_ERR", "1".into())]);
        let report = |clause: &str, detail: String| {
            let call = run.events.iter().find(|e| e.jop == job.n).map(|e| e.call.clone()).unwrap_or_default();
            let failing_op = run.events.iter().find(|e| e.jop == job.n).map(|e| run.acked_before(e.n)).and_then(|i| job.prog.get(i)).map(|o| o.to_string().split_whitespace().next().unwrap_or("").to_string()).unwrap_or_else(|| "drop".into());
            findings.lock().unwrap().push(Finding {
                sig: format!("{clause}|during={failing_op}|call={call}{}|{cname}", if job.short.is_some() { "+short" } else { "" }),
                engine: "E2-faultinject".into(),
                variant: json!({"cfg": cfg.to_spec(), "journal_op": job.n, "errno": job.errno, "short_write": job.short}),
                program: job.prog.iter().map(|o| o.to_string()).collect(),
                clause: clause.to_string(),
                detail,
            });
        };
        if run.exit_code != Some(0) {
            report("driver.crashed", format!("driver exit {:?}: {}", run.exit_code, run.stdout.chars().take(300).collect::<String>()));
            return;
        }
        let Some(fev) = run.events.iter().find(|e| e.jop == job.n) else {
            *tally.lock().unwrap().entry("fault_not_reached".into()).or_insert(0) += 1;
            return;
        };
        // index of the operation during which the fault fired
        let fi = run.acked_before(fev.n);
        let results: Vec<bool> = run.acks.iter().map(|a| a.2).collect();
        let any_err = results.iter().any(|ok| !ok);
        let mut key = String::new();
        if fi < run.acks.len() {
            let short_recovered = job.short.is_some(); // write_all retries the remainder: no error is a correct outcome
            // a fault inside background work has no caller to report to: whatever the step returns, it counts as
            // "the failure happened" and every later write must be refused
            let background = matches!(job.prog[fi], Op::Step { .. });
            if background && !short_recovered {
                for j in fi + 1..results.len() {
                    if results[j] && is_write(&job.prog[j]) {
                        report("not_fail_stop.after_background_failure", format!("journal {} #{} failed with errno {} inside `{}` (background work), yet `{}` (op {j}) was acknowledged afterwards", fev.call, job.n, job.errno, job.prog[fi], job.prog[j]));
                        return;
                    }
                }
                key = "background_fail_stop".into();
            } else if results[fi] {
                // the call during which the fault fired returned Ok
                let buffered = fev.call == "write" && cfg.manual_persist; // cannot happen: the OS write is issued by this very call
                let _ = buffered;
                if !short_recovered {
                    report("failing_call.acknowledged", format!("journal {} #{} failed with errno {} during `{}`, which returned Ok", fev.call, job.n, job.errno, job.prog[fi]));
                    return;
                }
                key = "short_write_retried".into();
            }
            if !results[fi] && !background {
                // fail-stop: every later operation must fail
                for j in fi + 1..results.len() {
                    if results[j] && is_write(&job.prog[j]) {
                        report("not_fail_stop", format!("after the failure during `{}` (op {fi}), `{}` (op {j}) was acknowledged", job.prog[fi], job.prog[j]));
                        return;
                    }
                }
                key = "fail_stop".into();
            }
        } else {
            key = "fault_during_drop".into();
        }
        // reopen without faults
        let lo_state = fi.min(nprobe);
        match recover_and_observe(&run.root, cfg) {
            Recovered::Ok { content, inconsistent } => {
                if let Some(dd) = inconsistent {
                    report("reopen.inconsistent_reads", dd);
                    return;
                }
                // acknowledged-before-failure ops present; the failed op entirely present or absent; later failed probes absent
                let ok_states: Vec<&Content> = if !any_err {
                    // nothing failed: everything the program and the probes wrote is there; compute by replay of all ops
                    vec![]
                } else if fi < nprobe {
                    vec![&hist.states[lo_state], &hist.states[(lo_state + 1).min(hist.states.len() - 1)]]
                } else {
                    vec![&hist.states[nprobe]]
                };
                if !any_err {
                    if let Some(ff) = &full_final {
                        if *ff != content {
                            report(
                                "reopen.acknowledged_write_missing",
                                format!("no operation reported an error (fault on journal op #{}), yet after reopen the state is {} instead of {}", job.n, show_content(&content), show_content(ff)),
                            );
                            return;
                        }
                    }
                }
                if any_err && fi < nprobe && !ok_states.iter().any(|s| **s == content) {
                    report(
                        "reopen.wrong_state",
                        format!("failure during `{}`: expected {} or {} after reopen, got {}", job.prog[fi], show_content(&hist.states[lo_state]), show_content(&hist.states[(lo_state + 1).min(hist.states.len() - 1)]), show_content(&content)),
                    );
                    return;
                }
            }
            Recovered::OpenErr(e) => {
                report("reopen.open_error", e);
                return;
            }
            Recovered::Panic(e) => {
                report("reopen.panic", e);
                return;
            }
        }
        *tally.lock().unwrap().entry(format!("{}:{key}", fev.call)).or_insert(0) += 1;
    });
    let tally = tally.into_inner().unwrap();
    o.cov("evaluations", json!(done));
    o.cov("distinct_nontrivial", json!(done));
    o.cov("programs", json!(programs));
    o.cov("fault_injections_total", json!(jobs.len()));
    o.cov("outcomes", json!(tally));
    o.cov("distinct_outcomes", json!(tally.len()));
    o.cov("exhaustive", json!(!to));
    o.cov("rule", json!("programs = all maximal programs up to the depth over {insert small, insert 5000-byte value, remove, clear, small batch, batch > 8 KiB (the journal BufWriter spills inside write_batch), transaction commit, persist(Buffer|SyncAll)} with automatic and manual journal persist, each followed by one probe of every write kind (insert, remove, clear, batch, persist Buffer, persist SyncAll, transaction commit); for EVERY n the n-th write/fsync/fdatasync on a journal file fails with EIO and with ENOSPC (writes also as short writes of 1 byte and of half the length) under the LD_PRELOAD shim; oracle: the operation during which the fault fired returns an error (a short write that write_all completes may succeed), every later operation of any kind returns an error, and a fault-free reopen shows every operation acknowledged before the failure, the failed one entirely or not at all, nothing else. Every injection is a distinct (program, n, errno, short) case."));
    if let Some(j) = jobs.get(jobs.len() / 2) {
        o.sample(json!({"cfg": cfgs[j.ci].0, "program_with_probes": j.prog.iter().map(|o| o.to_string()).collect::<Vec<_>>(), "fail_journal_op": j.n, "errno": j.errno, "short_write": j.short}));
    }
    o.assumptions = vec![
        "faults on journal files only (the property is about the journal); single-threaded driver (the multi-writer clause is covered by the E3 body of C14-style writers only structurally)".into(),
    ];
    let required = required_core;
    if to && done < required {
        o.machinery_errors.push(format!("time cap hit after {done} injections, before the required core of {required} (programs of depth 1) finished"));
    }
    if tally.len() < 2 {
        o.machinery_errors.push("vacuous: fewer than 2 distinct outcomes".into());
    }
    let mut f = findings.into_inner().unwrap();
    f.sort_by_key(|x| (x.sig.clone(), x.program.len(), x.variant["journal_op"].as_u64().unwrap_or(0)));
    o.findings = f;
    let _: BTreeSet<u8> = BTreeSet::new();
    crate::e3::fold_e3(&mut o, "C13", tier, &crate::e3::with_variants(bodies(tier), tier), "e3_");
    o.wall_s = t0.elapsed().as_secs_f64();
    finish(o)
}

pub fn replay(v: &serde_json::Value) -> i32 {
    if v["engine"] == "E3-schedcheck" {
        println!("replay: E3 fault bodies need the shim: LD_PRELOAD=/verif/build/libfjallfs.so FJALLFS_ROOT=/dev/shm FJALLFS_MODE=log");
        let tier = v["variant"]["tier"].as_str().unwrap_or("quick");
        let bi = v["variant"]["body_index"].as_u64().unwrap_or(0) as usize;
        let choices: Vec<usize> = v["variant"]["choices"].as_array().map(|a| a.iter().filter_map(|c| c.as_u64().map(|c| c as usize)).collect()).unwrap_or_default();
        return match crate::e3::with_variants(bodies(tier), tier).get(bi) {
            Some(b) => crate::e3::replay_schedule(&*b.body, &choices),
            None => 2,
        };
    }
    let Some(cfg) = Cfg::from_spec(v["variant"]["cfg"].as_str().unwrap_or("")) else { return 2 };
    let ops: Vec<Op> = v["program"].as_array().map(|a| a.iter().filter_map(|s| s.as_str()).filter_map(|s| Op::parse(s).ok()).collect()).unwrap_or_default();
    let n = v["variant"]["journal_op"].as_u64().unwrap_or(1) as usize;
    let errno = v["variant"]["errno"].as_i64().unwrap_or(5) as i32;
    let short = v["variant"]["short_write"].as_u64().map(|x| x as usize);
    let run = run_driver(&cfg, &ops, Mode::Fail { jop: n, errno, short }, &[("FJV_DRV_CONTINUE_ON_ERR", "1".into())]);
    for (i, c, ok) in &run.acks {
        println!("  op {i} `{}` -> {} (shim call counter {c})", ops[*i], if *ok { "Ok" } else { "Err" });
    }
    let fev = run.events.iter().find(|e| e.jop == n);
    println!("replay: fault fired at {:?}", fev.map(|e| format!("#{} {} {}", e.n, e.call, e.path)));
    let Some(fev) = fev else { return 0 };
    let fi = run.acked_before(fev.n);
    let bad = run.acks.iter().any(|(i, _, ok)| *i >= fi && *ok) && short.is_none();
    if bad { 1 } else { 0 }
}
