//! C14 — concurrent single operations are linearizable and no write is lost (E3).

use crate::core::*;
use crate::e3::*;
use crate::report::*;
use crate::sched::*;
use crate::world::Violation;
use fjall::{Database, Keyspace, KeyspaceCreateOptions};
use serde_json::json;
use std::collections::BTreeMap;
use std::path::Path;
use std::sync::atomic::{AtomicUsize, Ordering};
use std::sync::{Arc, Mutex};
use std::time::Instant;

#[derive(Clone, Debug, PartialEq)]
pub enum COp {
    Ins(&'static str, &'static str),
    Rem(&'static str),
    Get(&'static str),
    Contains(&'static str),
    SizeOf(&'static str),
    /// forward scan (weaker clause, see judge)
    Scan,
}

#[derive(Clone, Debug)]
pub struct Ev {
    pub tid: usize,
    pub op: COp,
    pub call: u64,
    pub ret: u64,
    pub result: String,
}

pub struct KvBody {
    pub name: &'static str,
    pub workers: usize,
    pub tiny: bool,
    /// sealed memtables prepared before the threads start (write-stall bodies)
    pub presealed: usize,
    /// L0 runs prepared before the threads start (flushed one by one through the real worker tick; the Compact
    /// messages those flushes queue stay in the channel for the worker thread)
    pub pre_l0: usize,
    /// journal rotation on the first flush
    pub jrot: bool,
    pub initial: Vec<(&'static str, &'static str)>,
    pub threads: Vec<Vec<COp>>,
}

fn exec_op(ks: &Keyspace, op: &COp) -> String {
    match op {
        COp::Ins(k, v) => match ks.insert(*k, *v) {
            Ok(()) => "ok".into(),
            Err(e) => format!("ERR({e:?})"),
        },
        COp::Rem(k) => match ks.remove(*k) {
            Ok(()) => "ok".into(),
            Err(e) => format!("ERR({e:?})"),
        },
        COp::Get(k) => match ks.get(k) {
            Ok(Some(v)) => String::from_utf8_lossy(&v).into_owned(),
            Ok(None) => "-".into(),
            Err(e) => format!("ERR({e:?})"),
        },
        COp::Contains(k) => match ks.contains_key(k) {
            Ok(b) => b.to_string(),
            Err(e) => format!("ERR({e:?})"),
        },
        COp::SizeOf(k) => match ks.size_of(k) {
            Ok(Some(n)) => n.to_string(),
            Ok(None) => "-".into(),
            Err(e) => format!("ERR({e:?})"),
        },
        COp::Scan => {
            let mut out = vec![];
            for g in ks.iter() {
                match g.into_inner() {
                    Ok((k, v)) => out.push(format!("{}={}", String::from_utf8_lossy(&k), String::from_utf8_lossy(&v))),
                    Err(e) => out.push(format!("ERR({e:?})")),
                }
            }
            out.join(",")
        }
    }
}

/// expected result of a point op on a sequential map
fn seq_result(m: &BTreeMap<String, String>, op: &COp) -> String {
    match op {
        COp::Ins(..) | COp::Rem(_) => "ok".into(),
        COp::Get(k) => m.get(*k).cloned().unwrap_or_else(|| "-".into()),
        COp::Contains(k) => m.contains_key(*k).to_string(),
        COp::SizeOf(k) => m.get(*k).map(|v| v.len().to_string()).unwrap_or_else(|| "-".into()),
        COp::Scan => unreachable!(),
    }
}

fn seq_apply(m: &mut BTreeMap<String, String>, op: &COp) {
    match op {
        COp::Ins(k, v) => {
            m.insert((*k).to_string(), (*v).to_string());
        }
        COp::Rem(k) => {
            m.remove(*k);
        }
        _ => {}
    }
}

/// Brute-force linearizability of the point operations.
fn linearizable(evs: &[Ev], initial: &BTreeMap<String, String>) -> bool {
    fn rec(evs: &[Ev], done: &mut Vec<bool>, m: &mut BTreeMap<String, String>, left: usize) -> bool {
        if left == 0 {
            return true;
        }
        for i in 0..evs.len() {
            if done[i] {
                continue;
            }
            // i is minimal: no other pending op returned before i was called
            if evs.iter().enumerate().any(|(j, e)| !done[j] && j != i && e.ret < evs[i].call) {
                continue;
            }
            if seq_result(m, &evs[i].op) != evs[i].result {
                continue;
            }
            let saved = m.clone();
            seq_apply(m, &evs[i].op);
            done[i] = true;
            if rec(evs, done, m, left - 1) {
                return true;
            }
            done[i] = false;
            *m = saved;
        }
        false
    }
    let mut done = vec![false; evs.len()];
    let mut m = initial.clone();
    rec(evs, &mut done, &mut m, evs.len())
}

/// The clause the statement gives scans: every key shows a value that was written (or the initial one) and that
/// was not definitely superseded before the scan started; keys never written are absent.
fn scan_ok(scan: &Ev, evs: &[Ev], initial: &BTreeMap<String, String>) -> Result<(), String> {
    let mut got: BTreeMap<String, String> = BTreeMap::new();
    if !scan.result.is_empty() {
        for kv in scan.result.split(',') {
            let Some((k, v)) = kv.split_once('=') else {
                return Err(format!("scan yielded {kv}"));
            };
            got.insert(k.to_string(), v.to_string());
        }
    }
    let mut keys: Vec<String> = initial.keys().cloned().collect();
    for e in evs {
        match &e.op {
            COp::Ins(k, _) | COp::Rem(k) => keys.push((*k).to_string()),
            _ => {}
        }
    }
    keys.sort();
    keys.dedup();
    for k in got.keys() {
        if !keys.contains(k) {
            return Err(format!("scan shows key {k} that was never written"));
        }
    }
    for k in keys {
        // candidate writes: (call, ret, value or None)
        let mut ws: Vec<(i64, i64, Option<String>)> = vec![(-2, -1, initial.get(&k).cloned())];
        for e in evs {
            match &e.op {
                COp::Ins(kk, v) if *kk == k => ws.push((e.call as i64, e.ret as i64, Some((*v).to_string()))),
                COp::Rem(kk) if *kk == k => ws.push((e.call as i64, e.ret as i64, None)),
                _ => {}
            }
        }
        let allowed: Vec<&Option<String>> = ws
            .iter()
            .filter(|w| w.0 < scan.ret as i64) // write must have started before the scan ended
            .filter(|w| !ws.iter().any(|w2| w.1 < w2.0 && w2.1 < scan.call as i64))
            .map(|w| &w.2)
            .collect();
        let g = got.get(&k).cloned();
        if !allowed.contains(&&g) {
            return Err(format!("scan [{}..{}] shows {k}={:?}, allowed {:?}", scan.call, scan.ret, g, allowed));
        }
    }
    Ok(())
}

impl Body for KvBody {
    fn name(&self) -> String {
        self.name.to_string()
    }

    fn launch(&self, dir: &Path) -> Launched {
        // "[reopened]": the clients run on a recovered database (prepared without workers, closed, opened again)
        let reopened = self.name.contains("[reopened]");
        let mk_opts = || {
            let mut opts = KeyspaceCreateOptions::default();
            if self.tiny {
                opts = opts.max_memtable_size(0);
            }
            opts
        };
        let mut db = Database::builder(dir).worker_threads_unchecked(if reopened { 0 } else { self.workers }).open().expect("open");
        let mut ks = db.keyspace("x", mk_opts).expect("keyspace");
        let mut initial = BTreeMap::new();
        for (k, v) in &self.initial {
            ks.insert(*k, *v).expect("prep insert");
            initial.insert((*k).to_string(), (*v).to_string());
        }
        if reopened {
            drop(ks);
            drop(db);
            db = Database::builder(dir).worker_threads_unchecked(self.workers).open().expect("reopen");
            ks = db.keyspace("x", mk_opts).expect("keyspace");
        }
        for i in 0..self.pre_l0 {
            ks.insert("p", format!("l{i}")).expect("prep insert");
            initial.insert("p".to_string(), format!("l{i}"));
            ks.rotate_memtable().expect("prep rotate");
            // run exactly the queued Flush message on this (uncontrolled) thread
            let pend = db.verif_pending();
            if let Some(idx) = pend.iter().position(|m| m.contains("Flush")) {
                db.verif_step(idx).expect("prep flush");
            }
        }
        // "[two-keyspaces]": a second keyspace gets a sealed memtable (and its flush task) first
        let _other = if self.name.contains("[two-keyspaces]") {
            let y = db.keyspace("y", KeyspaceCreateOptions::default).expect("keyspace y");
            y.insert("q", "0").expect("prep insert");
            y.rotate_memtable().expect("prep rotate");
            Some(y)
        } else {
            None
        };
        for i in 0..self.presealed {
            ks.insert("p", format!("{i}")).expect("prep insert");
            initial.insert("p".to_string(), format!("{i}"));
            ks.rotate_memtable().expect("prep rotate");
        }
        if self.jrot {
            GLOBAL_FAKE_JOURNAL_POS.store(65_000_000, Ordering::Relaxed);
        } else {
            GLOBAL_FAKE_JOURNAL_POS.store(0, Ordering::Relaxed);
        }
        let log: Arc<Mutex<Vec<Ev>>> = Arc::new(Mutex::new(vec![]));
        let done = Arc::new(AtomicUsize::new(0));
        let n = self.threads.len();
        let mut handles = vec![];
        const NAMES: [&str; 4] = ["client0", "client1", "client2", "client3"];
        for (tid, ops) in self.threads.iter().enumerate() {
            let ks = ks.clone();
            let ops = ops.clone();
            let log = log.clone();
            let done = done.clone();
            handles.push(spawn_client(NAMES[tid], move || {
                for op in ops {
                    let call = sched().now();
                    client_point("client.call");
                    let result = exec_op(&ks, &op);
                    let ret = sched().now();
                    log.lock().unwrap().push(Ev { tid, op, call, ret, result });
                }
                drop(ks);
                done.fetch_add(1, Ordering::SeqCst);
            }));
        }
        // closer: final reads, then the last handles are dropped under the scheduler
        {
            let log = log.clone();
            let done = done.clone();
            let keys: Vec<&'static str> = vec!["a", "b", "p"];
            handles.push(spawn_client("closer", move || {
                client_block_until(&|| done.load(Ordering::SeqCst) == n, "closer.wait_clients");
                for k in keys {
                    let call = sched().now();
                    let result = exec_op(&ks, &COp::Get(k));
                    let ret = sched().now() + 1;
                    log.lock().unwrap().push(Ev { tid: 99, op: COp::Get(k), call: call + 1_000_000, ret: ret + 1_000_000, result });
                }
                let call = sched().now();
                let result = exec_op(&ks, &COp::Scan);
                log.lock().unwrap().push(Ev { tid: 99, op: COp::Scan, call: call + 2_000_000, ret: call + 2_000_001, result });
                drop(ks);
                drop(db);
                GLOBAL_FAKE_JOURNAL_POS.store(0, Ordering::Relaxed);
            }));
        }
        let judge = Box::new(move |_dir: &Path| -> Result<String, Violation> {
            let evs = log.lock().unwrap().clone();
            if let Some(e) = evs.iter().find(|e| e.result.starts_with("ERR")) {
                return Err(Violation::new("op_error", format!("{:?} -> {}", e.op, e.result)));
            }
            let points: Vec<Ev> = evs.iter().filter(|e| e.op != COp::Scan).cloned().collect();
            if !linearizable(&points, &initial) {
                return Err(Violation::new(
                    "not_linearizable",
                    format!("history {:?}", points.iter().map(|e| format!("T{}:{:?}[{}..{}]->{}", e.tid, e.op, e.call, e.ret, e.result)).collect::<Vec<_>>()),
                ));
            }
            for s in evs.iter().filter(|e| e.op == COp::Scan) {
                scan_ok(s, &points, &initial).map_err(|d| Violation::new("scan_clause", d))?;
            }
            let mut desc: Vec<String> = evs.iter().filter(|e| !matches!(e.op, COp::Ins(..) | COp::Rem(_))).map(|e| format!("T{}:{:?}={}", e.tid, e.op, e.result)).collect();
            desc.sort();
            Ok(desc.join(";"))
        });
        Launched { handles, judge }
    }
}

pub fn bodies(tier: &str) -> Vec<BodySpec> {
    use COp::*;
    let q = tier == "quick";
    let b = |body: KvBody, bound: usize, secs: f64| BodySpec { body: Arc::new(body), bound, secs };
    let mut v = vec![
        b(KvBody { name: "2writers+reader", workers: 0, tiny: false, presealed: 0, pre_l0: 0, jrot: false, initial: vec![], threads: vec![vec![Ins("a", "1")], vec![Ins("a", "2")], vec![Get("a"), Get("a")]] }, if q { 2 } else { 3 }, if q { 7.0 } else { 200.0 }),
        b(KvBody { name: "ins-rem vs readers", workers: 0, tiny: false, presealed: 0, pre_l0: 0, jrot: false, initial: vec![("a", "0")], threads: vec![vec![Ins("a", "1"), Rem("a")], vec![Get("a"), Contains("a")], vec![Ins("b", "2"), SizeOf("a")]] }, 2, if q { 7.0 } else { 200.0 }),
        b(KvBody { name: "tiny-memtable+worker", workers: 1, tiny: true, presealed: 0, pre_l0: 0, jrot: false, initial: vec![], threads: vec![vec![Ins("a", "1"), Ins("b", "1")], vec![Ins("a", "2"), Get("b")], vec![Get("a"), Scan]] }, if q { 1 } else { 2 }, if q { 3.0 } else { 300.0 }),
        b(KvBody { name: "write-stall(4 sealed)+worker", workers: 1, tiny: false, presealed: 4, pre_l0: 0, jrot: false, initial: vec![], threads: vec![vec![Ins("a", "9"), Get("a")], vec![Get("p")]] }, if q { 1 } else { 2 }, if q { 5.0 } else { 200.0 }),
    ];
    v.push(b(KvBody { name: "ins-rem vs readers [reopened]", workers: 0, tiny: false, presealed: 0, pre_l0: 0, jrot: false, initial: vec![("a", "0")], threads: vec![vec![Ins("a", "1"), Rem("a")], vec![Get("a"), Scan], vec![Ins("b", "2"), SizeOf("a")]] }, 2, if q { 3.0 } else { 200.0 }));
    v.push(b(KvBody { name: "write-halt(30 L0 runs)+worker must compact [focus:write-path]", workers: 1, tiny: false, presealed: 0, pre_l0: 30, jrot: false, initial: vec![], threads: vec![vec![Ins("a", "9"), Get("a")]] }, if q { 1 } else { 2 }, if q { 5.0 } else { 120.0 }));
    v.push(b(KvBody { name: "tiny-memtable+worker [focus:write-path]", workers: 1, tiny: true, presealed: 0, pre_l0: 0, jrot: false, initial: vec![], threads: vec![vec![Ins("a", "1"), Ins("b", "1")], vec![Ins("a", "2"), Get("b")], vec![Get("a"), Scan]] }, 2, if q { 6.0 } else { 300.0 }));
    {
        use crate::props::c06::{Act, Finals, Kind, VisBody};
        v.push(BodySpec {
            body: Arc::new(VisBody { name: "ingest(a,b) || insert a: point reads agree with scans", kind: Kind::Plain, workers: 0, keyspaces: vec!["x"], initial: vec![("x", "ab", "0")], prerotate: vec![], threads: vec![vec![Act::Ingest("x", vec![("a", "ingested"), ("b", "ingested")])], vec![Act::Ins(("x", "a", "written"))]], finals: Finals::PointVsScan }),
            bound: 2,
            secs: if q { 5.0 } else { 120.0 },
        });
    }
    {
        use crate::props::c06::{Act, Finals, Kind, VisBody};
        // lock order: a batch / transaction commit against the worker's journal rotation (journal lock, journal manager,
        // keyspace map) — every writer must still get through
        v.push(BodySpec {
            body: Arc::new(VisBody { name: "batch commit || insert || worker: journal rotation + flush [jrot] [focus:commit-path]", kind: Kind::Plain, workers: 1, keyspaces: vec!["x", "y"], initial: vec![("x", "a", "0")], prerotate: vec!["x"], threads: vec![vec![Act::Batch(vec![("x", "b", "1"), ("y", "a", "1")])], vec![Act::Ins(("y", "b", "1"))]], finals: Finals::PointVsScan }),
            bound: if q { 1 } else { 2 },
            secs: if q { 4.0 } else { 120.0 },
        });
        v.push(BodySpec {
            body: Arc::new(VisBody { name: "sw-tx commit || worker: journal rotation + flush [jrot] [focus:commit-path]", kind: Kind::Sw, workers: 1, keyspaces: vec!["x", "y"], initial: vec![("x", "a", "0")], prerotate: vec!["x"], threads: vec![vec![Act::Tx(vec![("x", "b", "1"), ("y", "a", "1")])]], finals: Finals::PointVsScan }),
            bound: if q { 1 } else { 2 },
            secs: if q { 3.0 } else { 120.0 },
        });
    }
    // two keyspaces share the flush queue: y has a queued flush when x seals four memtables; the writer of x is in the
    // write stall and only x's flush lets it proceed
    v.push(b(KvBody { name: "write-stall(4 sealed) while another keyspace's flush is queued +worker [two-keyspaces]", workers: 1, tiny: false, presealed: 4, pre_l0: 0, jrot: false, initial: vec![], threads: vec![vec![Ins("a", "9"), Get("a")]] }, if q { 1 } else { 2 }, if q { 3.0 } else { 120.0 }));
    if !q {
        v.push(b(KvBody { name: "journal-rotation+2workers", workers: 2, tiny: true, presealed: 0, pre_l0: 0, jrot: true, initial: vec![("a", "0")], threads: vec![vec![Ins("a", "1"), Ins("b", "1")], vec![Rem("a"), Get("b")], vec![Get("a"), Scan]] }, 2, 300.0));
        v.push(b(KvBody { name: "3writers-same-key", workers: 0, tiny: false, presealed: 0, pre_l0: 0, jrot: false, initial: vec![], threads: vec![vec![Ins("a", "1"), Get("a")], vec![Ins("a", "2"), Get("a")], vec![Ins("a", "3"), Get("a")]] }, 3, 300.0));
    }
    v
}

pub fn run(tier: &str) -> i32 {
    let t0 = Instant::now();
    let mut o = Outcome::new("C14", tier, "model_checking");
    o.cov("exhaustive", json!(true));
    fold_e3(&mut o, "C14", tier, &crate::e3::with_variants(bodies(tier), tier), "");
    o.cov("rule", json!("for each body (2-3 client threads x 1-2 operations on colliding keys through cloned handles, optionally fjall's own worker threads with a tiny memtable / prepared write stall / journal rotation) every schedule with at most `preemption_bound` preemptions at the hooked scheduling points is executed on the real code; the recorded call/return history must be linearizable against a map model (brute force), scans satisfy the clause the statement gives them, no operation errors, no deadlock, no livelock within the horizon. states = schedules executed."));
    o.assumptions = vec![
        "calls into lsm-tree are treated as atomic, linearizable steps (trusted base); scheduling points are fjall-level synchronisation operations and the hooked critical sections".into(),
        "sequentially consistent exploration: weak-memory reorderings are not modelled".into(),
        "liveness only as absence of deadlock/livelock within the horizon".into(),
    ];
    o.wall_s = t0.elapsed().as_secs_f64();
    finish(o)
}

pub fn replay(v: &serde_json::Value) -> i32 {
    let tier = v["variant"]["tier"].as_str().unwrap_or("quick");
    let bi = v["variant"]["body_index"].as_u64().unwrap_or(0) as usize;
    let choices: Vec<usize> = v["variant"]["choices"].as_array().map(|a| a.iter().filter_map(|c| c.as_u64().map(|c| c as usize)).collect()).unwrap_or_default();
    let bs = crate::e3::with_variants(bodies(tier), tier);
    match bs.get(bi) {
        Some(b) => replay_schedule(&*b.body, &choices),
        None => 2,
    }
}
