//! C15 — journal records round-trip bit-exactly; damage is never read as different data (E2, journal surgery).

use crate::core::*;
use crate::crash::*;
use crate::explore::fresh_dir;
use crate::par::par_for;
use crate::report::*;
use crate::seqrun::threads;
use crate::world::*;
use fjall::{Database, KeyspaceCreateOptions};
use serde_json::json;
use std::collections::{BTreeMap, BTreeSet};
use std::sync::Mutex;
use std::time::{Duration, Instant};

#[derive(Clone, Debug, PartialEq)]
enum Kind {
    Value(Vec<u8>),
    Tomb,
    WeakTomb,
}

#[derive(Clone, Debug)]
enum Rec {
    /// single write through Keyspace::insert/remove/remove_weak
    Single(u8, Vec<u8>, Kind),
    Batch(Vec<(u8, Vec<u8>, Kind)>),
    Clear(u8),
    /// not a journal record: the keyspace's memtable is flushed to a table before the image is taken, so recovery
    /// meets a journal whose records are partly covered by tables
    Flush(u8),
    /// the same, and the flush rotates the journal first: the records written so far end up in a sealed journal
    FlushSeal(u8),
}

fn pattern(len: usize, content: u8) -> Vec<u8> {
    match content {
        0 => vec![0u8; len],
        1 => {
            let mut s: u64 = 0x1234_5678_9abc_def1 ^ len as u64;
            let mut v = Vec::with_capacity(len + 8);
            while v.len() < len {
                s ^= s << 13;
                s ^= s >> 7;
                s ^= s << 17;
                v.extend_from_slice(&s.to_le_bytes());
            }
            v.truncate(len);
            v
        }
        _ => vec![0xFFu8; len],
    }
}

fn key_of(len: usize, tag: u8) -> Vec<u8> {
    let mut k = pattern(len, 1);
    if let Some(b) = k.first_mut() {
        *b = b'k';
    }
    if len > 1 {
        k[len - 1] = tag;
    }
    k
}

fn open(dir: &std::path::Path, lz4: bool) -> fjall::Result<Database> {
    Database::builder(dir)
        .worker_threads_unchecked(0)
        .journal_compression(if lz4 { fjall::CompressionType::Lz4 } else { fjall::CompressionType::None })
        .open()
}

fn apply_model(m: &mut Content, r: &Rec) {
    let mut one = |ks: u8, k: &Vec<u8>, kind: &Kind| {
        let t = m.get_mut(ksn(ks)).unwrap();
        match kind {
            Kind::Value(v) => {
                t.insert(k.clone(), v.clone());
            }
            _ => {
                t.remove(k);
            }
        }
    };
    match r {
        Rec::Single(ks, k, kind) => one(*ks, k, kind),
        Rec::Batch(items) => {
            for (ks, k, kind) in items {
                one(*ks, k, kind);
            }
        }
        Rec::Clear(ks) => m.get_mut(ksn(*ks)).unwrap().clear(),
        Rec::Flush(_) | Rec::FlushSeal(_) => {}
    }
}

/// Writes the records through the real API; returns (image dir, states, record end offsets, journal name, full len).
fn write_history(recs: &[Rec], lz4: bool) -> Result<(std::path::PathBuf, Vec<Content>, Vec<u64>, String, u64), String> {
    let dir = fresh_dir();
    let db = open(&dir, lz4).map_err(|e| format!("open: {e:?}"))?;
    let x = db.keyspace("x", KeyspaceCreateOptions::default).map_err(|e| format!("{e:?}"))?;
    let y = db.keyspace("y", KeyspaceCreateOptions::default).map_err(|e| format!("{e:?}"))?;
    let hs = [x, y];
    let mut m: Content = BTreeMap::new();
    m.insert("x".into(), Map::new());
    m.insert("y".into(), Map::new());
    let j = active_journal(&dir).ok_or("no journal")?;
    let mut states = vec![m.clone()];
    let mut offs = vec![used_len(&j).unwrap_or(0)];
    for r in recs {
        match r {
            Rec::Single(ks, k, kind) => {
                let h = &hs[*ks as usize];
                match kind {
                    Kind::Value(v) => h.insert(k.clone(), v.clone()),
                    Kind::Tomb => h.remove(k.clone()),
                    Kind::WeakTomb => h.remove_weak(k.clone()),
                }
                .map_err(|e| format!("write: {e:?}"))?;
            }
            Rec::Batch(items) => {
                let mut b = db.batch();
                for (ks, k, kind) in items {
                    let h = &hs[*ks as usize];
                    match kind {
                        Kind::Value(v) => b.insert(h, k.clone(), v.clone()),
                        Kind::Tomb => b.remove(h, k.clone()),
                        Kind::WeakTomb => b.remove_weak(h, k.clone()),
                    }
                }
                b.commit().map_err(|e| format!("commit: {e:?}"))?;
            }
            Rec::Clear(ks) => hs[*ks as usize].clear().map_err(|e| format!("clear: {e:?}"))?,
            Rec::Flush(ks) | Rec::FlushSeal(ks) => {
                hs[*ks as usize].rotate_memtable().map_err(|e| format!("rotate: {e:?}"))?;
                let idx = db.verif_pending().iter().position(|m| m.contains("Flush")).ok_or("no flush queued")?;
                if matches!(r, Rec::FlushSeal(_)) {
                    crate::world::FAKE_JOURNAL_POS.with(|c| c.set(Some(65_000_000)));
                }
                let res = db.verif_step(idx);
                crate::world::FAKE_JOURNAL_POS.with(|c| c.set(None));
                res.map_err(|e| format!("flush: {e:?}"))?;
            }
        }
        apply_model(&mut m, r);
        states.push(m.clone());
        offs.push(used_len(&j).unwrap_or(0));
    }
    let img = fresh_dir();
    copy_tree(&dir, &img).map_err(|e| format!("copy: {e}"))?;
    let full = std::fs::metadata(&j).map(|m| m.len()).unwrap_or(0);
    let jname = j.file_name().unwrap().to_string_lossy().into_owned();
    drop(hs);
    drop(db);
    let _ = std::fs::remove_dir_all(&dir);
    Ok((img, states, offs, jname, full))
}

/// Recovers an image with arbitrary byte keys (full scans + point reads of every model key).
fn recover_bytes(dir: &std::path::Path, lz4: bool, probe_keys: &BTreeSet<(String, Vec<u8>)>) -> Recovered {
    let r = std::panic::catch_unwind(std::panic::AssertUnwindSafe(|| {
        let db = match open(dir, lz4) {
            Ok(d) => d,
            Err(e) => return Recovered::OpenErr(format!("{e:?}")),
        };
        let mut content = Content::new();
        let mut inconsistent = None;
        let mut names: Vec<String> = db.list_keyspace_names().iter().map(|s| s.to_string()).collect();
        names.sort();
        for n in names {
            let h = match db.keyspace(&n, KeyspaceCreateOptions::default) {
                Ok(h) => h,
                Err(e) => return Recovered::OpenErr(format!("{e:?}")),
            };
            let m = match scan_ks(&h) {
                Ok(m) => m,
                Err(e) => return Recovered::OpenErr(format!("scan: {e}")),
            };
            for (ks, k) in probe_keys.iter().filter(|(ks, _)| *ks == n) {
                let g = h.get(k).ok().flatten().map(|v| v.to_vec());
                if g.as_ref() != m.get(k) && inconsistent.is_none() {
                    inconsistent = Some(format!("keyspace {ks}: get({}B key) disagrees with scan", k.len()));
                }
            }
            content.insert(n, m);
        }
        Recovered::Ok { content, inconsistent }
    }));
    match r {
        Ok(r) => r,
        Err(_) => Recovered::Panic(crate::explore::take_panic_msg()),
    }
}

fn show_rec(r: &Rec) -> String {
    let it = |ks: &u8, k: &Vec<u8>, kind: &Kind| match kind {
        Kind::Value(v) => format!("{}.<{}B key>=<{}B>", ksn(*ks), k.len(), v.len()),
        Kind::Tomb => format!("{}.<{}B key>=-", ksn(*ks), k.len()),
        Kind::WeakTomb => format!("{}.<{}B key>=~", ksn(*ks), k.len()),
    };
    match r {
        Rec::Single(ks, k, kind) => format!("single {}", it(ks, k, kind)),
        Rec::Batch(items) => format!("batch [{}]", items.iter().map(|(a, b, c)| it(a, b, c)).collect::<Vec<_>>().join(" ")),
        Rec::Clear(ks) => format!("clear {}", ksn(*ks)),
        Rec::Flush(ks) => format!("flush {}", ksn(*ks)),
        Rec::FlushSeal(ks) => format!("flush {} + journal rotation", ksn(*ks)),
    }
}

fn roundtrip_cases() -> Vec<(String, Vec<Rec>)> {
    let mut v = vec![];
    let klens = [1usize, 2, 255, 256, 65535];
    let vlens = [0usize, 1, 4095, 4096, 4097, 70000];
    for &kl in &klens {
        for &vl in &vlens {
            for content in 0..3u8 {
                if vl == 0 && content > 0 {
                    continue;
                }
                let val = pattern(vl, content);
                v.push((
                    format!("single k{kl} v{vl} c{content}"),
                    vec![Rec::Single(0, key_of(kl, 1), Kind::Value(val.clone()))],
                ));
                v.push((
                    format!("batch3 k{kl} v{vl} c{content}"),
                    vec![Rec::Batch(vec![
                        (0, key_of(kl, 1), Kind::Value(val.clone())),
                        (1, key_of(kl.min(300), 2), Kind::Value(vec![])),
                        (0, key_of(kl, 3), Kind::Value(val.clone())),
                    ])],
                ));
            }
        }
        for (name, kind) in [("tomb", Kind::Tomb), ("weak", Kind::WeakTomb)] {
            v.push((
                format!("single-{name} k{kl}"),
                vec![
                    Rec::Single(0, key_of(kl, 1), Kind::Value(b"old".to_vec())),
                    Rec::Single(0, key_of(kl, 2), Kind::Value(b"keep".to_vec())),
                    Rec::Single(0, key_of(kl, 1), kind.clone()),
                ],
            ));
            v.push((
                format!("batch-{name} k{kl}"),
                vec![
                    Rec::Batch(vec![(0, key_of(kl, 1), Kind::Value(b"old".to_vec())), (1, key_of(kl, 1), Kind::Value(b"keep".to_vec()))]),
                    Rec::Batch(vec![(0, key_of(kl, 1), kind.clone()), (1, key_of(kl, 2), Kind::Value(vec![]))]),
                ],
            ));
        }
    }
    // batches whose keyspaces are flushed to different degrees before recovery reads the journal
    for (kl, vl) in [(1usize, 1usize), (2, 4096), (255, 70000)] {
        let val = pattern(vl, 1);
        let batch = Rec::Batch(vec![(0, key_of(kl, 1), Kind::Value(val.clone())), (1, key_of(kl, 2), Kind::Value(val.clone())), (0, key_of(kl, 3), Kind::Value(vec![])), (1, key_of(kl, 4), Kind::Tomb)]);
        let pre = Rec::Single(1, key_of(kl, 4), Kind::Value(b"old".to_vec()));
        for f in 0..2u8 {
            v.push((format!("batch4-2ks k{kl} v{vl}, {} flushed before recovery", ksn(f)), vec![pre.clone(), batch.clone(), Rec::Flush(f)]));
            v.push((format!("batch4-2ks k{kl} v{vl}, {} flushed with journal rotation (batch in a sealed journal), then a second batch", ksn(f)), vec![pre.clone(), batch.clone(), Rec::FlushSeal(f), Rec::Batch(vec![(1 - f, key_of(kl, 5), Kind::Value(val.clone())), (f, key_of(kl, 1), Kind::Tomb)])]));
            v.push((format!("batch4-2ks k{kl} v{vl}, {} flushed, then a second batch", ksn(f)), vec![pre.clone(), batch.clone(), Rec::Flush(f), Rec::Batch(vec![(1 - f, key_of(kl, 5), Kind::Value(val.clone())), (f, key_of(kl, 1), Kind::Tomb)])]));
        }
    }
    v.push(("clear".into(), vec![Rec::Single(0, key_of(2, 1), Kind::Value(b"1".to_vec())), Rec::Single(1, key_of(2, 1), Kind::Value(b"1".to_vec())), Rec::Clear(0), Rec::Single(0, key_of(2, 2), Kind::Value(pattern(5000, 1)))]));
    v
}

fn damage_journals() -> Vec<(&'static str, bool, Vec<Rec>)> {
    let k = |s: &str| s.as_bytes().to_vec();
    let val = |s: &str| Kind::Value(s.as_bytes().to_vec());
    vec![
        ("two-singles-same-key", true, vec![Rec::Single(0, k("a"), val("1")), Rec::Single(0, k("a"), val("2"))]),
        ("two-batches-overwrite", true, vec![
            Rec::Batch(vec![(0, k("a"), val("1")), (1, k("a"), val("1"))]),
            Rec::Batch(vec![(0, k("a"), val("2")), (0, k("b"), val("1"))]),
        ]),
        ("clear-between", true, vec![Rec::Single(0, k("a"), val("1")), Rec::Clear(0), Rec::Single(0, k("ab"), val("2"))]),
        ("remove-then-other", true, vec![Rec::Single(0, k("a"), val("1")), Rec::Single(0, k("a"), Kind::Tomb), Rec::Single(1, k("b"), val("2"))]),
        ("compressed-item", true, vec![Rec::Single(0, k("a"), Kind::Value(vec![7u8; 4200])), Rec::Single(0, k("b"), val("1"))]),
        ("three-batches-nocomp", false, vec![
            Rec::Batch(vec![(0, k("a"), val("1")), (1, k("a"), val("1"))]),
            Rec::Batch(vec![(0, k("ab"), val("")), (1, k("a"), Kind::Tomb)]),
            Rec::Batch(vec![(0, k("a"), Kind::WeakTomb), (1, k("b"), val("2"))]),
        ]),
    ]
}

fn zone(offs: &[u64], pos: u64) -> &'static str {
    // record containing pos
    let i = offs.iter().rposition(|o| *o <= pos).unwrap_or(0);
    let start = offs[i];
    let end = offs.get(i + 1).copied().unwrap_or(start);
    let rel = pos - start;
    let from_end = end.saturating_sub(pos);
    if rel == 0 {
        "start.tag"
    } else if rel < 5 {
        "start.item_count"
    } else if rel < 13 {
        "start.seqno"
    } else if from_end <= 4 {
        "end.magic"
    } else if from_end <= 12 {
        "end.checksum"
    } else if from_end == 13 {
        "end.tag"
    } else {
        "items"
    }
}

pub fn run(tier: &str) -> i32 {
    let t0 = Instant::now();
    let mut o = Outcome::new("C15", tier, "fault_enumeration");
    let q = tier == "quick";
    let deadline = t0 + Duration::from_secs_f64(if q { 42.0 } else { 1150.0 });
    let findings: Mutex<Vec<Finding>> = Mutex::new(vec![]);

    // ---------- (a) round trip ----------
    let cases = roundtrip_cases();
    let mut rt_jobs = vec![];
    for (ci, _) in cases.iter().enumerate() {
        for wl in [true, false] {
            for rl in [true, false] {
                rt_jobs.push((ci, wl, rl));
            }
        }
    }
    let rt_ok = Mutex::new(0u64);
    let (rt_done, rt_to) = crate::par::par_for_core(rt_jobs.len(), rt_jobs.len(), threads(), deadline, |i| {
        let (ci, wl, rl) = rt_jobs[i];
        let (name, recs) = &cases[ci];
        let r = (|| -> Result<(), (String, String)> {
            let (img, states, _offs, _j, _full) = write_history(recs, wl).map_err(|e| ("roundtrip.write_error".to_string(), e))?;
            let mut keys = BTreeSet::new();
            for s in &states {
                for (ks, m) in s {
                    for k in m.keys() {
                        keys.insert((ks.clone(), k.clone()));
                    }
                }
            }
            let rec = recover_bytes(&img, rl, &keys);
            let _ = std::fs::remove_dir_all(&img);
            match rec {
                Recovered::Ok { content, inconsistent: None } => {
                    if &content != states.last().unwrap() {
                        let d: Vec<String> = content.iter().map(|(k, m)| format!("{k}: {} keys", m.len())).collect();
                        return Err(("roundtrip.bytes_differ".into(), format!("recovered content differs from what was written ({})", d.join(", "))));
                    }
                    Ok(())
                }
                Recovered::Ok { inconsistent: Some(d), .. } => Err(("roundtrip.inconsistent_reads".into(), d)),
                Recovered::OpenErr(e) => Err(("roundtrip.open_error".into(), e)),
                Recovered::Panic(e) => Err(("roundtrip.panic".into(), e)),
            }
        })();
        match r {
            Ok(()) => *rt_ok.lock().unwrap() += 1,
            Err((clause, detail)) => findings.lock().unwrap().push(Finding {
                sig: format!("{clause}|case={}|write={}|read={}", name.replace(' ', "_"), if wl { "lz4" } else { "none" }, if rl { "lz4" } else { "none" }),
                engine: "E2-roundtrip".into(),
                variant: json!({"part": "roundtrip", "case": name, "write_lz4": wl, "read_lz4": rl}),
                program: recs.iter().map(show_rec).collect(),
                clause,
                detail,
            }),
        }
    });

    // ---------- (b) single byte damage ----------
    let alterations: Vec<Box<dyn Fn(u8) -> u8 + Sync>> = if q {
        let mut v: Vec<Box<dyn Fn(u8) -> u8 + Sync>> = vec![];
        for bit in 0..8 {
            v.push(Box::new(move |b| b ^ (1 << bit)));
        }
        for c in 0..5u8 {
            v.push(Box::new(move |_| c));
        }
        v
    } else {
        (1..=255u8).map(|d| Box::new(move |b: u8| b.wrapping_add(d)) as Box<dyn Fn(u8) -> u8 + Sync>).collect()
    };
    struct Dj {
        name: &'static str,
        lz4: bool,
        img: std::path::PathBuf,
        states: Vec<Content>,
        offs: Vec<u64>,
        jname: String,
        bytes: Vec<u8>,
        recs: Vec<Rec>,
    }
    let mut djs = vec![];
    for (name, lz4, recs) in damage_journals() {
        match write_history(&recs, lz4) {
            Ok((img, states, offs, jname, _full)) => {
                let bytes = read_prefix(&img.join(&jname), *offs.last().unwrap()).unwrap_or_default();
                djs.push(Dj { name, lz4, img, states, offs, jname, bytes, recs });
            }
            Err(e) => o.machinery_errors.push(format!("damage journal {name}: {e}")),
        }
    }
    let mut jobs = vec![];
    for (ji, d) in djs.iter().enumerate() {
        for pos in 0..d.bytes.len() {
            for ai in 0..alterations.len() {
                let nb = alterations[ai](d.bytes[pos]);
                if nb != d.bytes[pos] {
                    jobs.push((ji, pos as u64, nb));
                }
            }
        }
    }
    jobs.sort();
    jobs.dedup();
    let tally = Mutex::new(BTreeMap::<String, u64>::new());
    let required_core = jobs.iter().take_while(|j| j.0 < 2).count();
    let (dm_done, dm_to) = crate::par::par_for_core(jobs.len(), required_core, threads(), deadline, |i| {
        let (ji, pos, nb) = jobs[i];
        let d = &djs[ji];
        let dir = fresh_dir();
        if copy_tree(&d.img, &dir).is_err() || write_at(&dir.join(&d.jname), pos, &[nb]).is_err() {
            let _ = std::fs::remove_dir_all(&dir);
            return;
        }
        let rec = recover_and_observe(&dir, &Cfg { lz4: d.lz4, ..Cfg::default2() });
        let _ = std::fs::remove_dir_all(&dir);
        let z = zone(&d.offs, pos);
        let verdict = match rec {
            Recovered::OpenErr(_) => Ok("open_error".to_string()),
            Recovered::Panic(_) => Ok("open_panic".to_string()),
            Recovered::Ok { content, inconsistent } => {
                if let Some(p) = d.states.iter().position(|s| *s == content) {
                    if let Some(dd) = inconsistent {
                        Err(("damaged.inconsistent_reads".to_string(), dd))
                    } else {
                        Ok(format!("prefix{p}of{}", d.states.len() - 1))
                    }
                } else {
                    Err(("damaged.not_a_prefix".to_string(), format!("recovered {} which is no prefix state of {:?}", show_content(&content), d.states.iter().map(show_content).collect::<Vec<_>>())))
                }
            }
        };
        match verdict {
            Ok(v) => *tally.lock().unwrap().entry(format!("{z}:{v}")).or_insert(0) += 1,
            Err((clause, detail)) => {
                *tally.lock().unwrap().entry(format!("{z}:VIOLATION")).or_insert(0) += 1;
                findings.lock().unwrap().push(Finding {
                    sig: format!("{clause}|zone={z}"),
                    engine: "E2-bytedamage".into(),
                    variant: json!({"part": "damage", "journal": d.name, "offset": pos, "new_byte": nb, "old_byte": d.bytes[pos as usize], "zone": z}),
                    program: d.recs.iter().map(show_rec).collect(),
                    clause,
                    detail: format!("journal {} byte {pos} ({z}) {:#04x}->{:#04x}: {detail}", d.name, d.bytes[pos as usize], nb),
                });
            }
        }
    });
    for d in &djs {
        let _ = std::fs::remove_dir_all(&d.img);
    }
    let tally = tally.into_inner().unwrap();
    o.cov("evaluations", json!(rt_done + dm_done));
    o.cov("distinct_nontrivial", json!(dm_done + rt_done));
    o.cov("rule", json!("(a) round trip: product of key length {1,2,255,256,65535} x value length {0,1,4095,4096,4097,70000} x content {zeros, incompressible, 0xFF} x {single, 3-item 2-keyspace batch with an empty value} + tombstone/weak tombstone/clear cases, each written under Lz4 and None and read back under Lz4 and None after a crash image (no Drop); recovered bytes must be identical. (b) damage: for 6 journals, EVERY byte of the used part x {8 single-bit flips, set to 0..4} (quick) or x all 255 other values (thorough); open must fail, or every keyspace must equal the model after some prefix of the commit history. Every case is distinct (different bytes on disk)."));
    o.cov("roundtrip_cases", json!(rt_jobs.len()));
    o.cov("roundtrip_ok", json!(*rt_ok.lock().unwrap()));
    o.cov("damage_cases", json!(jobs.len()));
    o.cov("damage_cases_done", json!(dm_done));
    o.cov("damage_outcomes_by_zone", json!(tally));
    o.cov("distinct_outcomes", json!(tally.len()));
    o.cov("exhaustive", json!(!(rt_to || dm_to)));
    o.sample(json!({"part": "roundtrip", "case": cases[7].0, "records": cases[7].1.iter().map(show_rec).collect::<Vec<_>>()}));
    if let Some(d) = djs.get(1) {
        o.sample(json!({"part": "damage", "journal": d.name, "records": d.recs.iter().map(show_rec).collect::<Vec<_>>(), "used_bytes": d.bytes.len(), "record_end_offsets": d.offs}));
    }
    o.assumptions = vec![
        "single-byte alterations inside the used part of the active journal; multi-byte damage is not enumerated".into(),
        "a recovery that fails (error or panic) is an allowed outcome of damage and is counted separately".into(),
    ];
    let required_damage = required_core;
    if rt_to || dm_done < required_damage {
        o.machinery_errors.push(format!("time cap hit before the required core finished (round trip complete: {}, damage cases {dm_done}/{required_damage} required)", !rt_to));
    }
    let mut f = findings.into_inner().unwrap();
    f.sort_by_key(|x| (x.sig.clone(), x.variant["offset"].as_u64().unwrap_or(0)));
    o.findings = f;
    o.wall_s = t0.elapsed().as_secs_f64();
    finish(o)
}

pub fn replay(v: &serde_json::Value) -> i32 {
    if v["variant"]["part"] == "damage" {
        let jn = v["variant"]["journal"].as_str().unwrap_or("");
        let pos = v["variant"]["offset"].as_u64().unwrap_or(0);
        let nb = v["variant"]["new_byte"].as_u64().unwrap_or(0) as u8;
        for (name, lz4, recs) in damage_journals() {
            if name == jn {
                let (img, states, _offs, jname, _) = write_history(&recs, lz4).unwrap();
                write_at(&img.join(&jname), pos, &[nb]).unwrap();
                let rec = recover_and_observe(&img, &Cfg { lz4, ..Cfg::default2() });
                let _ = std::fs::remove_dir_all(&img);
                println!("replay: {rec:?}");
                return match rec {
                    Recovered::Ok { content, .. } if !states.contains(&content) => 1,
                    _ => 0,
                };
            }
        }
        2
    } else {
        let case = v["variant"]["case"].as_str().unwrap_or("");
        let wl = v["variant"]["write_lz4"].as_bool().unwrap_or(true);
        let rl = v["variant"]["read_lz4"].as_bool().unwrap_or(true);
        for (name, recs) in roundtrip_cases() {
            if name == case {
                let (img, states, ..) = write_history(&recs, wl).unwrap();
                let rec = recover_bytes(&img, rl, &BTreeSet::new());
                let _ = std::fs::remove_dir_all(&img);
                return match rec {
                    Recovered::Ok { content, .. } if &content == states.last().unwrap() => 0,
                    other => {
                        println!("replay: {:?}", match other { Recovered::Ok { .. } => "content differs".to_string(), o => format!("{o:?}") });
                        1
                    }
                };
            }
        }
        2
    }
}
