//! C16 — keyspace options chosen at creation stay in force (E1-style exhaustive sweep over option values and pairs).

use crate::explore::fresh_dir;
use crate::par::par_for;
use crate::report::*;
use crate::seqrun::threads;
use fjall::config::*;
use fjall::{CompressionType, Database, Keyspace, KeyspaceCreateOptions, KvSeparationOptions};
use serde_json::json;
use std::collections::BTreeSet;
use std::sync::{Arc, Mutex};
use std::time::{Duration, Instant};

type Setter = Arc<dyn Fn(KeyspaceCreateOptions) -> KeyspaceCreateOptions + Send + Sync>;

struct OptVal {
    group: &'static str,
    name: String,
    set: Setter,
}

fn ov(group: &'static str, name: impl Into<String>, f: impl Fn(KeyspaceCreateOptions) -> KeyspaceCreateOptions + Send + Sync + 'static) -> OptVal {
    OptVal { group, name: name.into(), set: Arc::new(f) }
}

fn vec_of<T: Clone>(items: &[T], len: usize) -> Vec<T> {
    (0..len).map(|i| items[i % items.len()].clone()).collect()
}

fn domain(thorough: bool) -> Vec<OptVal> {
    let mut d = vec![];
    let _ = thorough;
    let lens: &[usize] = &[1, 2, 3, 7, 255];
    for &n in lens {
        let v = vec_of(&[1024u32, 4096, 1 << 20, 65536], n);
        d.push(ov("data_block_size", format!("len{n}"), move |o| o.data_block_size_policy(BlockSizePolicy::new(v.clone()))));
        let v = vec_of(&[1u8, 16, 255], n);
        d.push(ov("restart_interval", format!("len{n}"), move |o| o.data_block_restart_interval_policy(RestartIntervalPolicy::new(v.clone()))));
        let v = vec_of(&[8.0f32, 0.0, 1.5], n);
        d.push(ov("hash_ratio", format!("len{n}"), move |o| o.data_block_hash_ratio_policy(HashRatioPolicy::new(v.clone()))));
        let v = vec_of(&[CompressionType::Lz4, CompressionType::None], n);
        d.push(ov("data_compression", format!("len{n}"), move |o| o.data_block_compression_policy(CompressionPolicy::new(v.clone()))));
        let v = vec_of(&[CompressionType::Lz4, CompressionType::None, CompressionType::None], n);
        d.push(ov("index_compression", format!("len{n}"), move |o| o.index_block_compression_policy(CompressionPolicy::new(v.clone()))));
        let v = vec_of(&[false, true, true], n);
        d.push(ov("filter_pinning", format!("len{n}"), move |o| o.filter_block_pinning_policy(PinningPolicy::new(v.clone()))));
        let v = vec_of(&[false, false, true], n);
        d.push(ov("index_pinning", format!("len{n}"), move |o| o.index_block_pinning_policy(PinningPolicy::new(v.clone()))));
        let v = vec_of(&[true, false], n);
        d.push(ov("filter_partitioning", format!("len{n}"), move |o| o.filter_block_partitioning_policy(PinningPolicy::new(v.clone()))));
        let v = vec_of(&[true, true, false], n);
        d.push(ov("index_partitioning", format!("len{n}"), move |o| o.index_block_partitioning_policy(PinningPolicy::new(v.clone()))));
        let v = vec_of(
            &[
                FilterPolicyEntry::None,
                FilterPolicyEntry::Bloom(BloomConstructionPolicy::BitsPerKey(0.0)),
                FilterPolicyEntry::Bloom(BloomConstructionPolicy::BitsPerKey(10.0)),
                FilterPolicyEntry::Bloom(BloomConstructionPolicy::FalsePositiveRate(0.0001)),
            ],
            n,
        );
        d.push(ov("filter_policy", format!("len{n}"), move |o| o.filter_policy(FilterPolicy::new(v.clone()))));
    }
    for m in [0u64, 1, 4096, 8 * 1024 * 1024, u64::MAX] {
        d.push(ov("max_memtable_size", format!("{m}"), move |o| o.max_memtable_size(m)));
    }
    d.push(ov("manual_journal_persist", "true", |o| o.manual_journal_persist(true)));
    d.push(ov("expect_point_read_hits", "true", |o| o.expect_point_read_hits(true)));
    for l0 in [1u8, 2, 255] {
        for ts in [1u64, 1 << 20, u64::MAX] {
            for (rn, ratios) in [("r1", vec![2.0f32]), ("r3", vec![2.0, 4.0, 8.5]), ("r255", vec_of(&[3.0f32, 10.0], 255))] {

                let ratios = ratios.clone();
                d.push(ov("compaction", format!("leveled(l0={l0},target={ts},{rn})"), move |o| {
                    o.compaction_strategy(Arc::new(fjall::compaction::Leveled::default().with_l0_threshold(l0).with_table_target_size(ts).with_level_ratio_policy(ratios.clone())))
                }));
            }
        }
    }
    for limit in [1u64, 1 << 30, u64::MAX] {
        for ttl in [None, Some(0u64), Some(u64::MAX)] {
            d.push(ov("compaction", format!("fifo(limit={limit},ttl={ttl:?})"), move |o| o.compaction_strategy(Arc::new(fjall::compaction::Fifo::new(limit, ttl)))));
        }
    }
    d.push(ov("kv_separation", "default", |o| o.with_kv_separation(Some(KvSeparationOptions::default()))));
    d.push(ov("kv_separation", "min", |o| {
        o.with_kv_separation(Some(KvSeparationOptions::default().separation_threshold(1).file_target_size(1).staleness_threshold(0.0).age_cutoff(0.0).compression(CompressionType::None)))
    }));
    d.push(ov("kv_separation", "max", |o| {
        o.with_kv_separation(Some(KvSeparationOptions::default().separation_threshold(u32::MAX).file_target_size(u64::MAX).staleness_threshold(1.0).age_cutoff(1.0).compression(CompressionType::Lz4)))
    }));
    d
}

/// Options as different as possible from both the defaults and `variant`'s usual values.
fn most_different(flip: bool) -> KeyspaceCreateOptions {
    let o = KeyspaceCreateOptions::default()
        .data_block_size_policy(BlockSizePolicy::new(if flip { vec![2048u32, 8192] } else { vec![32768u32] }))
        .data_block_restart_interval_policy(RestartIntervalPolicy::all(if flip { 3 } else { 7 }))
        .data_block_hash_ratio_policy(HashRatioPolicy::all(if flip { 2.5 } else { 4.5 }))
        .data_block_compression_policy(CompressionPolicy::new(vec![CompressionType::None, CompressionType::Lz4, CompressionType::None, CompressionType::Lz4]))
        .index_block_compression_policy(CompressionPolicy::all(CompressionType::Lz4))
        .filter_block_pinning_policy(PinningPolicy::all(!flip))
        .index_block_pinning_policy(PinningPolicy::all(flip))
        .filter_block_partitioning_policy(PinningPolicy::all(!flip))
        .index_block_partitioning_policy(PinningPolicy::all(flip))
        .filter_policy(FilterPolicy::all(FilterPolicyEntry::Bloom(BloomConstructionPolicy::BitsPerKey(if flip { 3.0 } else { 5.0 }))))
        .max_memtable_size(if flip { 777 } else { 12345 })
        .manual_journal_persist(!flip)
        .expect_point_read_hits(!flip)
        .compaction_strategy(if flip {
            Arc::new(fjall::compaction::Fifo::new(4242, Some(17)))
        } else {
            Arc::new(fjall::compaction::Leveled::default().with_l0_threshold(9).with_table_target_size(999).with_level_ratio_policy(vec![7.0, 7.5]))
        });
    if flip {
        o.with_kv_separation(None)
    } else {
        o.with_kv_separation(Some(KvSeparationOptions::default().separation_threshold(4242).file_target_size(4243)))
    }
}

fn fingerprint(ks: &Keyspace) -> String {
    fingerprint_fields(ks).iter().map(|(k, v)| format!("{k}={v}")).collect::<Vec<_>>().join("\u{1}")
}

fn fingerprint_fields(ks: &Keyspace) -> Vec<(String, String)> {
    let raw = fingerprint_raw(ks);
    raw.split('\u{1}').filter_map(|kv| kv.split_once('=').map(|(a, b)| (a.to_string(), b.to_string()))).collect()
}

fn fingerprint_raw(ks: &Keyspace) -> String {
    let c = &ks.config;
    let (mm, mjp, lc) = ks.verif_config_scalars();
    let strat = &c.compaction_strategy;
    let f32bits = |v: &[f32]| v.iter().map(|x| format!("{:08x}", x.to_bits())).collect::<Vec<_>>().join(",");
    format!(
        "hash_ratio=[{}]\u{1}block_size={:?}\u{1}restart={:?}\u{1}index_restart={:?}\u{1}index_pin={:?}\u{1}filter_pin={:?}\u{1}filter_part={:?}\u{1}index_part={:?}\u{1}point_hits={}\u{1}filter={:?}\u{1}data_comp={:?}\u{1}index_comp={:?}\u{1}strategy={}:{:?}\u{1}kvsep={:?}/{}\u{1}kv_separated={}\u{1}max_memtable={mm}\u{1}manual_persist={mjp}\u{1}level_count={lc}",
        f32bits(&c.data_block_hash_ratio_policy),
        &*c.data_block_size_policy,
        &*c.data_block_restart_interval_policy,
        &*c.index_block_restart_interval_policy,
        &*c.index_block_pinning_policy,
        &*c.filter_block_pinning_policy,
        &*c.filter_block_partitioning_policy,
        &*c.index_block_partitioning_policy,
        c.expect_point_read_hits,
        c.filter_policy.iter().map(|e| match e {
            FilterPolicyEntry::None => "none".to_string(),
            FilterPolicyEntry::Bloom(BloomConstructionPolicy::BitsPerKey(b)) => format!("bpk:{:08x}", b.to_bits()),
            FilterPolicyEntry::Bloom(BloomConstructionPolicy::FalsePositiveRate(b)) => format!("fpr:{:08x}", b.to_bits()),
        }).collect::<Vec<_>>(),
        &*c.data_block_compression_policy,
        &*c.index_block_compression_policy,
        strat.get_name(),
        strat.get_config(),
        c.kv_separation_opts,
        c.kv_separation_opts.as_ref().map(|k| format!("{:08x}/{:08x}", k.staleness_threshold.to_bits(), k.age_cutoff.to_bits())).unwrap_or_default(),
        ks.is_kv_separated(),
    )
}

/// The options as the LSM-tree actually received them (`tree_config()`), next to the stored ones: "in force" means the
/// engine runs with them, not only that they are remembered.
fn effective_mismatch(ks: &Keyspace) -> Option<(String, String)> {
    use lsm_tree::AbstractTree;
    let c = &ks.config;
    let t = ks.tree.tree_config();
    let f32bits = |v: &[f32]| v.iter().map(|x| format!("{:08x}", x.to_bits())).collect::<Vec<_>>().join(",");
    let filt = |p: &FilterPolicy| {
        p.iter()
            .map(|e| match e {
                FilterPolicyEntry::None => "none".to_string(),
                FilterPolicyEntry::Bloom(BloomConstructionPolicy::BitsPerKey(b)) => format!("bpk:{:08x}", b.to_bits()),
                FilterPolicyEntry::Bloom(BloomConstructionPolicy::FalsePositiveRate(b)) => format!("fpr:{:08x}", b.to_bits()),
            })
            .collect::<Vec<_>>()
            .join(",")
    };
    let kv = |k: &Option<KvSeparationOptions>| k.as_ref().map(|k| format!("{:?}/{:08x}/{:08x}", k, k.staleness_threshold.to_bits(), k.age_cutoff.to_bits())).unwrap_or_else(|| "none".into());
    let pairs: Vec<(&str, String, String)> = vec![
        ("data_block_size", format!("{:?}", &*c.data_block_size_policy), format!("{:?}", &*t.data_block_size_policy)),
        ("data_compression", format!("{:?}", &*c.data_block_compression_policy), format!("{:?}", &*t.data_block_compression_policy)),
        ("index_compression", format!("{:?}", &*c.index_block_compression_policy), format!("{:?}", &*t.index_block_compression_policy)),
        ("restart_interval", format!("{:?}", &*c.data_block_restart_interval_policy), format!("{:?}", &*t.data_block_restart_interval_policy)),
        ("filter_pinning", format!("{:?}", &*c.filter_block_pinning_policy), format!("{:?}", &*t.filter_block_pinning_policy)),
        ("index_pinning", format!("{:?}", &*c.index_block_pinning_policy), format!("{:?}", &*t.index_block_pinning_policy)),
        ("hash_ratio", f32bits(&c.data_block_hash_ratio_policy), f32bits(&t.data_block_hash_ratio_policy)),
        ("index_partitioning", format!("{:?}", &*c.index_block_partitioning_policy), format!("{:?}", &*t.index_block_partitioning_policy)),
        ("filter_partitioning", format!("{:?}", &*c.filter_block_partitioning_policy), format!("{:?}", &*t.filter_block_partitioning_policy)),
        ("filter_policy", filt(&c.filter_policy), filt(&t.filter_policy)),
        ("kv_separation", kv(&c.kv_separation_opts), kv(&t.kv_separation_opts)),
    ];
    for (name, stored, effective) in pairs {
        if stored != effective {
            let cut = |s: &str| s.chars().take(120).collect::<String>();
            return Some((name.to_string(), format!("stored {} but the tree runs with {}", cut(&stored), cut(&effective))));
        }
    }
    None
}

fn open(dir: &std::path::Path) -> fjall::Result<Database> {
    Database::builder(dir).worker_threads_unchecked(0).open()
}

/// create -> reopen -> open existing with most different options -> reopen (other flip) -> behavioural cross-check
fn run_case(setters: &[&OptVal]) -> Result<String, (String, String)> {
    let dir = fresh_dir();
    let res = std::panic::catch_unwind(std::panic::AssertUnwindSafe(|| -> Result<String, (String, String)> {
        let e = |c: &str, x: fjall::Error| (c.to_string(), format!("{x:?}"));
        let mut opts = KeyspaceCreateOptions::default();
        for s in setters {
            opts = (s.set)(opts);
        }
        let f0;
        let mm;
        {
            let db = open(&dir).map_err(|x| e("open", x))?;
            let ks = db.keyspace("k", || opts).map_err(|x| e("create", x))?;
            f0 = fingerprint(&ks);
            mm = ks.verif_config_scalars().0;
            if let Some((field, d)) = effective_mismatch(&ks) {
                return Err((format!("options.not_in_force@{field}"), format!("right after creation: {d}")));
            }
            // a second keyspace with other options must not disturb the first one's stored options
            let _other = db.keyspace("other", || most_different(true)).map_err(|x| e("create other", x))?;
        }
        for (round, flip) in [(1, false), (2, true), (3, false)] {
            let db = open(&dir).map_err(|x| e("reopen", x))?;
            let ks = db.keyspace("k", || most_different(flip)).map_err(|x| e("open existing", x))?;
            let f = fingerprint(&ks);
            if let Some((field, d)) = effective_mismatch(&ks) {
                return Err((format!("options.not_in_force@{field}"), format!("after reopen #{round}: {d}")));
            }
            if f != f0 {
                // name the first differing field
                let a: Vec<&str> = f0.split('\u{1}').collect();
                let b: Vec<&str> = f.split('\u{1}').collect();
                let (diff, field) = a
                    .iter()
                    .zip(b.iter())
                    .find(|(x, y)| x != y)
                    .map(|(x, y)| {
                        let cut = |s: &str| s.chars().take(160).collect::<String>();
                        (format!("created with {} but after reopen #{round}: {}", cut(x), cut(y)), x.split('=').next().unwrap_or("?").to_string())
                    })
                    .unwrap_or_else(|| ("fingerprints differ".into(), "?".into()));
                return Err((format!("options.changed@{field}"), diff));
            }
            if round == 2 && (mm < 4500 || mm > 1_000_000) {
                // the same through a batch whose LAST item belongs to another keyspace (with a large memtable limit)
                let other = db.keyspace("other", || most_different(false)).map_err(|x| e("open other", x))?;
                let big_other = other.verif_config_scalars().0 > 1_000_000;
                let mut b = db.batch();
                b.insert(&ks, "b", vec![7u8; 5000]);
                b.insert(&other, "z", "1");
                b.commit().map_err(|x| e("batch", x))?;
                let queued = db.verif_pending().iter().any(|m| m.contains("Rotate") && m.contains("\"k\""));
                let expect = mm < 4500;
                let _ = big_other;
                if queued != expect {
                    return Err(("options.behaviour@max_memtable_size".into(), format!("max_memtable_size={mm}: after a batch touching `k` and then `other`, rotation of `k` queued = {queued}")));
                }
            }
            if round == 3 {
                // behavioural cross-check of max_memtable_size
                ks.insert("a", "1").map_err(|x| e("insert", x))?;
                let queued = db.verif_pending().iter().any(|m| m.contains("Rotate"));
                let expect = mm < 50;
                if mm < 50 || mm > 1_000_000 {
                    if queued != expect {
                        return Err(("options.behaviour@max_memtable_size".into(), format!("max_memtable_size={mm}: rotation queued after a write = {queued}")));
                    }
                }
            }
        }
        Ok(f0)
    }));
    let _ = std::fs::remove_dir_all(&dir);
    match res {
        Ok(r) => r,
        Err(_) => Err(("panic".into(), crate::explore::take_panic_msg())),
    }
}

// ------------------------------------------------------------------ E3: two threads open the same name with different options
pub struct OpenRaceBody;

impl crate::e3::Body for OpenRaceBody {
    fn name(&self) -> String {
        "two threads open keyspace k with different options".into()
    }
    fn launch(&self, dir: &std::path::Path) -> crate::e3::Launched {
        use crate::sched::*;
        use std::sync::atomic::{AtomicUsize, Ordering};
        let db = Database::builder(dir).worker_threads_unchecked(0).open().expect("open");
        let done = Arc::new(AtomicUsize::new(0));
        let got: Arc<Mutex<Vec<(usize, u64, String)>>> = Arc::new(Mutex::new(vec![]));
        let mut handles = vec![];
        const NAMES: [&str; 2] = ["opener0", "opener1"];
        for t in 0..2usize {
            let (db, done, got) = (db.clone(), done.clone(), got.clone());
            handles.push(spawn_client(NAMES[t], move || {
                client_point("client.call");
                let ks = db.keyspace("k", || most_different(t == 0)).expect("keyspace");
                got.lock().unwrap().push((t, ks.id(), fingerprint(&ks)));
                drop(ks);
                drop(db);
                done.fetch_add(1, Ordering::SeqCst);
            }));
        }
        let after: Arc<Mutex<Option<(usize, String)>>> = Arc::new(Mutex::new(None));
        {
            let (done, after) = (done.clone(), after.clone());
            let dirp = dir.to_path_buf();
            handles.push(spawn_client("closer", move || {
                client_block_until(&|| done.load(Ordering::SeqCst) == 2, "closer.wait_clients");
                let count = db.keyspace_count();
                drop(db);
                // reopen: which options are in force now?
                if let Ok(d2) = Database::builder(&dirp).worker_threads_unchecked(0).open() {
                    if let Ok(k) = d2.keyspace("k", KeyspaceCreateOptions::default) {
                        *after.lock().unwrap() = Some((count, fingerprint(&k)));
                    }
                }
            }));
        }
        let judge = Box::new(move |_dir: &std::path::Path| -> Result<String, crate::world::Violation> {
            let got = got.lock().unwrap().clone();
            if got.len() != 2 {
                return Err(crate::world::Violation::new("harness", "openers did not finish"));
            }
            if got[0].1 != got[1].1 || got[0].2 != got[1].2 {
                return Err(crate::world::Violation::new(
                    "options.two_keyspaces_under_one_name",
                    format!("both threads opened \"k\" but got different keyspaces: ids {} and {}, options differ: {}", got[0].1, got[1].1, got[0].2 != got[1].2),
                ));
            }
            match after.lock().unwrap().clone() {
                Some((count, f)) => {
                    if count != 1 {
                        return Err(crate::world::Violation::new("options.keyspace_count", format!("keyspace_count() = {count}")));
                    }
                    if f != got[0].2 {
                        return Err(crate::world::Violation::new("options.changed_after_reopen", "options after reopen differ from the ones both handles showed".to_string()));
                    }
                    Ok(format!("id{}", got[0].1))
                }
                None => Err(crate::world::Violation::new("options.reopen_failed", "reopen after the race failed".to_string())),
            }
        });
        crate::e3::Launched { handles, judge }
    }
}

pub fn bodies(tier: &str) -> Vec<crate::e3::BodySpec> {
    vec![crate::e3::BodySpec { body: Arc::new(OpenRaceBody), bound: 2, secs: if tier == "quick" { 6.0 } else { 120.0 } }]
}

pub fn run(tier: &str) -> i32 {
    let t0 = Instant::now();
    let mut o = Outcome::new("C16", tier, "model_checking");
    let q = tier == "quick";
    let deadline = t0 + Duration::from_secs_f64(if q { 45.0 } else { 1100.0 });
    let dom = domain(!q);
    // cases: default, every single value, every pair of values from different groups
    let mut cases: Vec<Vec<usize>> = vec![vec![]];
    for i in 0..dom.len() {
        cases.push(vec![i]);
    }
    for i in 0..dom.len() {
        for j in (i + 1)..dom.len() {
            if dom[i].group != dom[j].group {
                cases.push(vec![i, j]);
            }
        }
    }
    let findings: Mutex<Vec<Finding>> = Mutex::new(vec![]);
    let prints: Mutex<BTreeSet<u64>> = Mutex::new(BTreeSet::new());
    let (done, to) = crate::par::par_for_core(cases.len(), dom.len() + 1, threads(), deadline, |ci| {
        let c = &cases[ci];
        let setters: Vec<&OptVal> = c.iter().map(|i| &dom[*i]).collect();
        match run_case(&setters) {
            Ok(f) => {
                use std::hash::{Hash, Hasher};
                let mut h = std::collections::hash_map::DefaultHasher::new();
                f.hash(&mut h);
                prints.lock().unwrap().insert(h.finish());
            }
            Err((clause, detail)) => {
                let groups: Vec<String> = setters.iter().map(|s| s.group.to_string()).collect();
                findings.lock().unwrap().push(Finding {
                    sig: format!("{clause}|set={}", groups.join("+")),
                    engine: "E1-optionsweep".into(),
                    variant: json!({"case": c}),
                    program: setters.iter().map(|s| format!("{}={}", s.group, s.name)).collect(),
                    clause,
                    detail,
                });
            }
        }
    });
    let np = prints.lock().unwrap().len();
    o.cov("states", json!(np.max(1)));
    o.cov("transitions", json!((done * 4).max(1)));
    o.cov("traces_validated_against_impl", json!(done));
    o.cov("cases", json!(cases.len()));
    o.cov("cases_done", json!(done));
    o.cov("option_values", json!(dom.len()));
    o.cov("distinct_outcomes", json!(np));
    o.cov("exhaustive", json!(!to));
    o.cov("rule", json!("finite domain per option (policy vectors of length 1,2,(3),7,255 over boundary element values; memtable size {0,1,8MiB,u64::MAX}; flags; Leveled l0 x target size x ratio vectors; FIFO limit x ttl; blob options absent/default/min/max); cases = defaults, every single value, every pair of values of different options; each case: create on the real database (plus a second keyspace with other options), then three reopen cycles each opening the existing keyspace with maximally different options; after every reopen every option field (doc-hidden public config, the crate-private scalars through a cfg-gated accessor, compaction strategy name+config, floats by bit pattern, is_kv_separated) must equal what the keyspace was created with; max_memtable_size is cross-checked behaviourally. states = distinct stored configurations observed."));
    for ci in [1usize, cases.len() / 2, cases.len() - 1] {
        o.sample(json!({"case": cases[ci].iter().map(|i| format!("{}={}", dom[*i].group, dom[*i].name)).collect::<Vec<_>>()}));
    }
    o.assumptions = vec!["pairs of options, not all combinations; triples only through the fixed 'most different' sets".into()];
    if to && done < dom.len() + 1 {
        o.machinery_errors.push(format!("time cap hit after {done}/{} cases, before every single value was checked", cases.len()));
    }
    if np < 2 {
        o.machinery_errors.push("vacuous: fewer than 2 distinct configurations".into());
    }
    let mut f = findings.into_inner().unwrap();
    f.sort_by_key(|x| (x.sig.clone(), x.program.len()));
    o.findings = f;
    crate::e3::fold_e3(&mut o, "C16", tier, &crate::e3::with_variants(bodies(tier), tier), "e3_");
    o.wall_s = t0.elapsed().as_secs_f64();
    finish(o)
}

pub fn replay(v: &serde_json::Value) -> i32 {
    if v["engine"] == "E3-schedcheck" {
        let tier = v["variant"]["tier"].as_str().unwrap_or("quick");
        let choices: Vec<usize> = v["variant"]["choices"].as_array().map(|a| a.iter().filter_map(|c| c.as_u64().map(|c| c as usize)).collect()).unwrap_or_default();
        return crate::e3::replay_schedule(&*crate::e3::with_variants(bodies(tier), tier)[0].body, &choices);
    }
    let idx: Vec<usize> = v["variant"]["case"].as_array().map(|a| a.iter().filter_map(|x| x.as_u64().map(|x| x as usize)).collect()).unwrap_or_default();
    for thorough in [false, true] {
        let dom = domain(thorough);
        let names: Vec<String> = v["program"].as_array().map(|a| a.iter().filter_map(|s| s.as_str().map(String::from)).collect()).unwrap_or_default();
        let setters: Vec<&OptVal> = idx.iter().filter_map(|i| dom.get(*i)).collect();
        if setters.len() == idx.len() && setters.iter().zip(names.iter()).all(|(s, n)| format!("{}={}", s.group, s.name) == *n) {
            return match run_case(&setters) {
                Ok(_) => {
                    println!("replay: options round-trip");
                    0
                }
                Err((c, d)) => {
                    println!("replay: VIOLATION clause={c} :: {d}");
                    1
                }
            };
        }
    }
    2
}
