//! C17 — one live instance per directory, and only compatible directories open (E1 handle programs + marker sweep; E3 bodies).

use crate::crash::copy_tree;
use crate::explore::fresh_dir;
use crate::par::par_for;
use crate::report::*;
use crate::seqrun::threads;
use crate::shimrun::tree_hash;
use fjall::{Database, Keyspace, KeyspaceCreateOptions, OptimisticTxDatabase, SingleWriterTxDatabase};
use serde_json::json;
use std::collections::BTreeSet;
use std::path::Path;
use std::sync::Mutex;
use std::time::{Duration, Instant};

#[derive(Clone, Copy, Debug, PartialEq, Eq, PartialOrd, Ord)]
enum HOp {
    CloneDb,
    OpenKs,
    CloneKs,
    Write,
    QueueWork,
    Snapshot,
    DropDb(u8),
    DropKs(u8),
    DropSnap,
    TryOpen(u8),
}

enum AnyDb {
    Plain(Database),
    Sw(SingleWriterTxDatabase),
    Occ(OptimisticTxDatabase),
}
impl AnyDb {
    fn inner(&self) -> &Database {
        match self {
            AnyDb::Plain(d) => d,
            AnyDb::Sw(d) => d.inner(),
            AnyDb::Occ(d) => d.inner(),
        }
    }
    fn clone_db(&self) -> AnyDb {
        match self {
            AnyDb::Plain(d) => AnyDb::Plain(d.clone()),
            AnyDb::Sw(d) => AnyDb::Sw(d.clone()),
            AnyDb::Occ(d) => AnyDb::Occ(d.clone()),
        }
    }
}

fn open_kind(dir: &Path, kind: u8, workers: usize) -> fjall::Result<AnyDb> {
    Ok(match kind {
        0 => AnyDb::Plain(Database::builder(dir).worker_threads_unchecked(workers).open()?),
        1 => AnyDb::Sw(SingleWriterTxDatabase::builder(dir).worker_threads_unchecked(workers).open()?),
        _ => AnyDb::Occ(OptimisticTxDatabase::builder(dir).worker_threads_unchecked(workers).open()?),
    })
}

struct HWorld {
    dir: std::path::PathBuf,
    dbs: Vec<Option<AnyDb>>,
    kss: Vec<Option<Keyspace>>,
    snap: Option<fjall::Snapshot>,
    writes: u32,
}

impl HWorld {
    fn alive(&self) -> bool {
        self.dbs.iter().any(|d| d.is_some()) || self.kss.iter().any(|k| k.is_some()) || self.snap.is_some()
    }
    fn any_db(&self) -> Option<&AnyDb> {
        self.dbs.iter().flatten().next()
    }
    fn any_ks(&self) -> Option<&Keyspace> {
        self.kss.iter().flatten().next()
    }
    fn enabled(&self) -> Vec<HOp> {
        let mut v = vec![];
        if self.any_db().is_some() {
            if self.dbs.len() < 3 {
                v.push(HOp::CloneDb);
            }
            if self.kss.len() < 3 {
                v.push(HOp::OpenKs);
            }
            if self.snap.is_none() {
                v.push(HOp::Snapshot);
            }
        }
        if self.any_ks().is_some() {
            if self.kss.len() < 3 {
                v.push(HOp::CloneKs);
            }
            v.push(HOp::Write);
            v.push(HOp::QueueWork);
        }
        for (i, d) in self.dbs.iter().enumerate() {
            if d.is_some() {
                v.push(HOp::DropDb(i as u8));
            }
        }
        for (i, k) in self.kss.iter().enumerate() {
            if k.is_some() {
                v.push(HOp::DropKs(i as u8));
            }
        }
        if self.snap.is_some() {
            v.push(HOp::DropSnap);
        }
        if self.alive() {
            for k in 0..3 {
                v.push(HOp::TryOpen(k));
            }
        }
        v
    }
    fn apply(&mut self, op: HOp, workers: usize) -> Result<(), (String, String)> {
        match op {
            HOp::CloneDb => {
                let c = self.any_db().unwrap().clone_db();
                self.dbs.push(Some(c));
            }
            HOp::OpenKs => {
                let k = self.any_db().unwrap().inner().keyspace("x", KeyspaceCreateOptions::default).map_err(|e| ("op_error".to_string(), format!("{e:?}")))?;
                self.kss.push(Some(k));
            }
            HOp::CloneKs => {
                let k = self.any_ks().unwrap().clone();
                self.kss.push(Some(k));
            }
            HOp::Write => {
                self.writes += 1;
                self.any_ks().unwrap().insert("a", format!("{}", self.writes)).map_err(|e| ("op_error".to_string(), format!("{e:?}")))?;
            }
            HOp::QueueWork => {
                self.any_ks().unwrap().rotate_memtable().map_err(|e| ("op_error".to_string(), format!("{e:?}")))?;
            }
            HOp::Snapshot => self.snap = Some(self.any_db().unwrap().inner().snapshot()),
            HOp::DropDb(i) => self.dbs[i as usize] = None,
            HOp::DropKs(i) => self.kss[i as usize] = None,
            HOp::DropSnap => self.snap = None,
            HOp::TryOpen(kind) => {
                // snapshots do not keep the database alive by themselves (they hold no Database handle)
                let holds_lock = self.dbs.iter().any(|d| d.is_some()) || self.kss.iter().any(|k| k.is_some());
                if !holds_lock {
                    return Ok(());
                }
                let before = tree_hash(&self.dir);
                let r = open_kind(&self.dir, kind, workers);
                let after = tree_hash(&self.dir);
                match r {
                    Err(fjall::Error::Locked) => {}
                    Ok(_) => return Err(("second_open.succeeded".into(), format!("a second open ({}) succeeded while handles are alive", ["Database", "SingleWriterTxDatabase", "OptimisticTxDatabase"][kind as usize]))),
                    Err(e) => return Err(("second_open.wrong_error".into(), format!("expected Locked, got {e:?}"))),
                }
                if workers == 0 && before != after {
                    // (with free-running worker threads the first instance itself changes the directory meanwhile)
                    return Err(("second_open.modified_directory".into(), "the refused open changed the directory".into()));
                }
            }
        }
        Ok(())
    }
}

fn worker_threads_alive() -> usize {
    let mut n = 0;
    if let Ok(rd) = std::fs::read_dir("/proc/self/task") {
        for e in rd.flatten() {
            if let Ok(c) = std::fs::read_to_string(e.path().join("comm")) {
                if c.trim() == "fjall:worker" {
                    n += 1;
                }
            }
        }
    }
    n
}

/// Runs one handle program; after it, every handle is dropped in index order and the directory must open again.
fn run_handle_program(first_kind: u8, prog: &[HOp], workers: usize, check_threads: bool) -> Result<(Vec<HOp>, u64), (String, String)> {
    let dir = fresh_dir();
    let r = std::panic::catch_unwind(std::panic::AssertUnwindSafe(|| -> Result<(Vec<HOp>, u64), (String, String)> {
        // first_kind 3..=5: the live instance is a *recovered* one (created, closed, opened again): the lock is then taken on
        // the path `Database::recover` uses, not the one `create_new` uses
        let (first_kind, recovered_start) = (first_kind % 3, first_kind >= 3);
        if recovered_start {
            drop(open_kind(&dir, first_kind, 0).map_err(|e| ("open".to_string(), format!("{e:?}")))?);
        }
        let db = open_kind(&dir, first_kind, workers).map_err(|e| ("open".to_string(), format!("{e:?}")))?;
        let mut w = HWorld { dir: dir.clone(), dbs: vec![Some(db)], kss: vec![], snap: None, writes: 0 };
        for op in prog {
            w.apply(*op, workers)?;
        }
        let children = w.enabled();
        let writes = w.writes;
        // drop everything that is left
        w.snap = None;
        w.kss.clear();
        w.dbs.clear();
        if check_threads {
            let t0 = Instant::now();
            while worker_threads_alive() > 0 && t0.elapsed() < Duration::from_secs(5) {
                std::thread::sleep(Duration::from_micros(200));
            }
            let n = worker_threads_alive();
            if n > 0 {
                return Err(("threads.still_alive".into(), format!("{n} fjall:worker threads still alive 5 s after the last handle was dropped")));
            }
        }
        for kind in 0..3u8 {
            match open_kind(&dir, kind, 0) {
                Ok(db) => {
                    if writes > 0 {
                        let ks = db.inner().keyspace("x", KeyspaceCreateOptions::default).map_err(|e| ("reopen".to_string(), format!("{e:?}")))?;
                        let v = ks.get("a").map_err(|e| ("reopen".to_string(), format!("{e:?}")))?;
                        if v.as_deref() != Some(format!("{writes}").as_bytes()) {
                            return Err(("after_drop.content".into(), format!("a={:?} expected {writes}", v)));
                        }
                    }
                }
                Err(e) => return Err(("after_drop.open_failed".into(), format!("open after the last handle was dropped failed: {e:?}"))),
            }
        }
        Ok((children, u64::from(writes) * 16 + prog.len() as u64))
    }));
    let _ = std::fs::remove_dir_all(&dir);
    match r {
        Ok(r) => r,
        Err(_) => Err(("panic".into(), crate::explore::take_panic_msg())),
    }
}

fn marker_cases(max_len: usize, thorough: bool) -> Vec<Vec<u8>> {
    let alpha: [u8; 9] = [b'F', b'J', b'L', 0, 1, 2, 3, 4, 255];
    let mut out: Vec<Vec<u8>> = vec![vec![]];
    let mut level: Vec<Vec<u8>> = vec![vec![]];
    for _ in 0..max_len {
        let mut next = vec![];
        for p in &level {
            for a in alpha {
                let mut q = p.clone();
                q.push(a);
                next.push(q);
            }
        }
        out.extend(next.iter().cloned());
        level = next;
    }
    // correct header followed by extra bytes, and all version bytes
    for v in 0..=255u8 {
        out.push(vec![b'F', b'J', b'L', v]);
    }
    if thorough {
        for a in alpha {
            for b in alpha {
                out.push(vec![b'F', b'J', b'L', 3, a, b]);
            }
        }
    }
    out.push(vec![b'F', b'J', b'L', 3, 0]);
    // longer markers with the right magic: every version byte followed by one trailing byte, and every version byte of
    // the alphabet followed by two (a parser that looks at the wrong position, or at the last byte, must not be fooled)
    for v in 0..=255u8 {
        for a in alpha {
            out.push(vec![b'F', b'J', b'L', v, a]);
        }
    }
    for v in alpha {
        for a in alpha {
            for b in alpha {
                out.push(vec![b'F', b'J', b'L', v, a, b]);
            }
        }
    }
    out.sort();
    out.dedup();
    out
}

fn prepare_base(kind: u8) -> std::path::PathBuf {
    use crate::world::*;
    let dir = fresh_dir();
    let mut w = World::new(dir.clone(), Cfg::default2()).expect("world");
    w.keep_dir = true;
    let ops: &[&str] = match kind {
        0 => &[],
        1 => &["ins x.a=1", "rotate x", "step WorkerMessage:Flush", "ins y.a=1"],
        _ => &["ins x.a=1", "ins y.a=1", "rotate x", "step+jrot WorkerMessage:Flush", "rotate y", "step WorkerMessage:Flush"],
    };
    for o in ops {
        w.apply(&Op::parse(o).unwrap()).expect("base op");
    }
    drop(w);
    dir
}

pub fn run(tier: &str) -> i32 {
    let t0 = Instant::now();
    let mut o = Outcome::new("C17", tier, "model_checking");
    let q = tier == "quick";
    let findings: Mutex<Vec<Finding>> = Mutex::new(vec![]);
    let outcomes: Mutex<BTreeSet<u64>> = Mutex::new(BTreeSet::new());
    let mut exhaustive = true;

    // ---------- A1: handle programs, no worker threads, level by level ----------
    let depth = if q { 4 } else { 6 };
    let deadline = t0 + Duration::from_secs_f64(if q { 18.0 } else { 500.0 });
    let mut programs = 0u64;
    let mut transitions = 0u64;
    let mut completed_depth = 0;
    let mut per_level = vec![];
    for first_kind in 0..6u8 {
        let mut level: Vec<Vec<HOp>> = vec![vec![]];
        // recovered start states get one level less
        let depth = if first_kind >= 3 { depth - 1 } else { depth };
        for d in 0..=depth {
            let next: Mutex<Vec<Vec<HOp>>> = Mutex::new(vec![]);
            let (done, to) = crate::par::par_for_core(level.len(), if d <= 3 { level.len() } else { 0 }, threads(), deadline, |i| {
                let p = &level[i];
                match run_handle_program(first_kind, p, 0, false) {
                    Ok((children, dig)) => {
                        outcomes.lock().unwrap().insert(dig);
                        if d < depth {
                            let mut n = next.lock().unwrap();
                            for c in children {
                                let mut q2 = p.clone();
                                q2.push(c);
                                n.push(q2);
                            }
                        }
                    }
                    Err((clause, detail)) => findings.lock().unwrap().push(Finding {
                        sig: format!("{clause}|handles"),
                        engine: "E1-handles".into(),
                        variant: json!({"part": "handles", "first_kind": first_kind, "workers": 0}),
                        program: p.iter().map(|o| format!("{o:?}")).collect(),
                        clause,
                        detail,
                    }),
                }
            });
            programs += done as u64;
            transitions += (done * d) as u64;
            if first_kind == 0 {
                per_level.push(done);
            }
            if to {
                exhaustive = false;
                break;
            }
            completed_depth = d;
            level = next.into_inner().unwrap();
            level.sort();
            if level.is_empty() {
                break;
            }
        }
    }
    // ---------- A2: with real worker threads (sequential; thread-stopped clause, polled) ----------
    let mut a2 = 0u64;
    {
        let progs: Vec<Vec<HOp>> = vec![
            vec![],
            vec![HOp::OpenKs, HOp::Write, HOp::QueueWork],
            vec![HOp::OpenKs, HOp::Write, HOp::QueueWork, HOp::DropDb(0), HOp::TryOpen(0)],
            vec![HOp::OpenKs, HOp::CloneDb, HOp::Write, HOp::QueueWork, HOp::Write, HOp::QueueWork, HOp::DropKs(0), HOp::TryOpen(1), HOp::DropDb(0), HOp::TryOpen(2)],
            vec![HOp::OpenKs, HOp::Write, HOp::Snapshot, HOp::QueueWork, HOp::DropKs(0), HOp::DropDb(0)],
        ];
        for kind in 0..3u8 {
            for workers in [1usize, 2] {
                for p in &progs {
                    a2 += 1;
                    // watchdog: a drop that never returns is a violation, not a hang of the checker
                    let (tx, rx) = std::sync::mpsc::channel();
                    let p2 = p.clone();
                    std::thread::spawn(move || {
                        let _ = tx.send(run_handle_program(kind, &p2, workers, true));
                    });
                    let res = match rx.recv_timeout(Duration::from_secs(60)) {
                        Ok(r) => r,
                        Err(_) => Err(("drop.never_returns".to_string(), "the program (ending with dropping every handle) did not finish within 60 s: Drop for DatabaseInner is blocked".to_string())),
                    };
                    if let Err((clause, detail)) = res {
                        findings.lock().unwrap().push(Finding {
                            sig: format!("{clause}|workers"),
                            engine: "E1-handles".into(),
                            variant: json!({"part": "handles", "first_kind": kind, "workers": workers}),
                            program: p.iter().map(|o| format!("{o:?}")).collect(),
                            clause,
                            detail,
                        });
                    }
                }
            }
        }
    }

    // ---------- A3: drop with sealed journals pinned by a lagging keyspace, then open again ----------
    {
        use crate::explore::{run_program, RunResult};
        use crate::seqprop::*;
        use crate::world::{Cfg, Op};
        let mut a = Alpha::empty();
        a.ins = vec![(0, 0, 1), (1, 1, 0)];
        a.rotate = vec![0, 1];
        a.jrot = true;
        a.reopen = true;
        a.max_reopen = 2;
        for pfx in ["two_sealed_journals", "l6_l0_mem"] {
            let mut prop = SeqProp::new("C17", Cfg::default2(), a.clone());
            prop.prefix = prefix(pfx);
            for prog in crate::props::c02::leaves(&prop, if q { 2 } else { 3 }) {
                let mut p2 = prog.clone();
                p2.push(Op::Reopen);
                a2 += 1;
                if let RunResult::Bad(v) = run_program(&prop, &p2, 0, None) {
                    if v.clause == "reopen" || v.clause == "open" {
                        findings.lock().unwrap().push(Finding {
                            sig: format!("after_drop.open_failed|sealed-journals"),
                            engine: "E1-handles".into(),
                            variant: json!({"part": "sealed", "prefix": pfx}),
                            program: prop.prefix.iter().chain(p2.iter()).map(|o| o.to_string()).collect(),
                            clause: "after_drop.open_failed".into(),
                            detail: v.detail,
                        });
                    }
                }
            }
        }
    }

    // ---------- B: version marker contents ----------
    let deadline_b = Instant::now() + Duration::from_secs_f64(if q { 22.0 } else { 500.0 });
    let bases: Vec<std::path::PathBuf> = (0..3).map(prepare_base).collect();
    let base_names = ["fresh", "data-in-tables", "journal-0-rotated-away"];
    let mut jobs: Vec<(usize, Option<Vec<u8>>)> = vec![];
    let reduced: Vec<Option<Vec<u8>>> = vec![
        None,
        Some(vec![]),
        Some(b"F".to_vec()),
        Some(b"FJ".to_vec()),
        Some(b"FJL".to_vec()),
        Some(b"FJX\x03".to_vec()),
        Some(b"FJL\x01".to_vec()),
        Some(b"FJL\x02".to_vec()),
        Some(b"FJL\x04".to_vec()),
        Some(b"FJL\xff".to_vec()),
        Some(b"FJL\x00".to_vec()),
        Some(b"FJL\x03".to_vec()),
    ];
    for b in 0..3 {
        for r in &reduced {
            jobs.push((b, r.clone()));
        }
    }
    for m in marker_cases(3, false) {
        jobs.push((0, Some(m)));
    }
    let required_markers = jobs.len();
    for m in marker_cases(if q { 4 } else { 5 }, !q) {
        if m.len() > 3 {
            jobs.push((0, Some(m)));
        }
    }
    let tally = Mutex::new(std::collections::BTreeMap::<String, u64>::new());
    let (mdone, mto) = crate::par::par_for_core(jobs.len(), required_markers, threads(), deadline_b, |i| {
        let (b, marker) = &jobs[i];
        let dir = fresh_dir();
        if copy_tree(&bases[*b], &dir).is_err() {
            return;
        }
        let vp = dir.join("version");
        match marker {
            None => {
                let _ = std::fs::remove_file(&vp);
            }
            Some(m) => {
                let _ = std::fs::write(&vp, m);
            }
        }
        let before = tree_hash(&dir);
        let r = std::panic::catch_unwind(std::panic::AssertUnwindSafe(|| Database::builder(&dir).worker_threads_unchecked(0).open().map(|_| ())));
        let after = tree_hash(&dir);
        let valid = marker.as_deref().map(|m| m.len() >= 4 && &m[..4] == b"FJL\x03").unwrap_or(false);
        let exact = marker.as_deref() == Some(b"FJL\x03");
        let desc = match marker {
            None => "absent".to_string(),
            Some(m) => format!("{:02x?}", m),
        };
        let mut report = |clause: &str, detail: String| {
            findings.lock().unwrap().push(Finding {
                sig: format!("{clause}|base={}|marker={}", base_names[*b], if marker.is_none() { "absent" } else if valid { "valid+extra" } else { "invalid" }),
                engine: "E1-marker".into(),
                variant: json!({"part": "marker", "base": b, "marker": marker}),
                program: vec![format!("base {}", base_names[*b]), format!("version marker := {desc}")],
                clause: clause.to_string(),
                detail,
            });
        };
        let key;
        match (&r, valid, marker.is_none()) {
            (Ok(Ok(())), true, _) => key = if exact { "valid:opened" } else { "valid+extra:opened" },
            (Ok(Err(_)), true, _) => {
                if exact {
                    report("marker.valid_refused", format!("marker {desc}: {:?}", r));
                }
                key = "valid+extra:refused";
            }
            (Ok(Ok(())), false, false) => {
                report("marker.invalid_accepted", format!("marker {desc} was accepted"));
                key = "invalid:opened";
            }
            (Ok(Ok(())), false, true) => {
                report("marker.absent_accepted", "a directory holding database files but no version marker was opened (and thereby modified)".into());
                key = "absent:opened";
            }
            (Ok(Err(e)), false, absent) => {
                if !absent && !matches!(e, fjall::Error::InvalidVersion(_)) {
                    report("marker.wrong_error", format!("marker {desc}: expected InvalidVersion, got {e:?}"));
                }
                if before != after {
                    report("marker.refused_but_modified", format!("marker {desc}: open was refused ({e:?}) but the directory changed"));
                }
                key = if absent { "absent:refused" } else { "invalid:refused" };
            }
            (Err(_), _, _) => {
                report("marker.panic", format!("marker {desc}: open panicked: {}", crate::explore::take_panic_msg()));
                key = "panic";
            }
        }
        *tally.lock().unwrap().entry(format!("{}:{key}", base_names[*b])).or_insert(0) += 1;
        let _ = std::fs::remove_dir_all(&dir);
    });
    for b in &bases {
        let _ = std::fs::remove_dir_all(b);
    }
    if mto {
        exhaustive = false;
    }
    // ---------- fixtures of other major versions ----------
    let mut fixtures = 0;
    for (name, ver) in [("v1_keyspace", "V1"), ("v2_keyspace", "V2")] {
        let src = Path::new("/repo/test_fixture").join(name);
        if !src.is_dir() {
            continue;
        }
        fixtures += 1;
        let dir = fresh_dir();
        let _ = copy_tree(&src, &dir);
        let before = tree_hash(&dir);
        let r = Database::builder(&dir).worker_threads_unchecked(0).open();
        let after = tree_hash(&dir);
        let _ = ver;
        let ok = matches!(&r, Err(fjall::Error::InvalidVersion(_)));
        if !ok || before != after {
            findings.lock().unwrap().push(Finding {
                sig: format!("fixture.not_refused|{name}"),
                engine: "E1-marker".into(),
                variant: json!({"part": "fixture", "name": name}),
                program: vec![format!("open test_fixture/{name}")],
                clause: "fixture.not_refused".into(),
                detail: format!("result {:?}, directory changed: {}", r.as_ref().map(|_| ()), before != after),
            });
        }
        let _ = std::fs::remove_dir_all(&dir);
    }

    // ---------- E3 bodies ----------
    o.cov("exhaustive", json!(exhaustive));
    crate::e3::fold_e3(&mut o, "C17", tier, &crate::e3::with_variants(crate::props::c17e3::bodies(tier), tier), "e3_");

    let tally = tally.into_inner().unwrap();
    o.cov_add("states", programs + a2 + mdone as u64);
    o.cov_add("transitions", transitions + mdone as u64);
    o.cov_add("traces_validated_against_impl", programs + a2 + mdone as u64);
    o.cov("handle_programs", json!(programs));
    o.cov("handle_programs_per_depth_first_kind0", json!(per_level));
    o.cov("handle_depth_completed", json!(completed_depth));
    o.cov("handle_programs_with_worker_threads", json!(a2));
    o.cov("marker_cases", json!(jobs.len()));
    o.cov("marker_cases_done", json!(mdone));
    o.cov("marker_outcomes", json!(tally));
    o.cov("fixtures_checked", json!(fixtures));
    let prev = o.coverage.get("distinct_outcomes").and_then(|v| v.as_u64()).unwrap_or(0);
    o.cov("distinct_outcomes", json!(prev + outcomes.lock().unwrap().len() as u64 + tally.len() as u64));
    o.cov("rule", json!("(A) every enabled program up to the depth over {clone database handle, open keyspace, clone keyspace handle, write, queue background work, snapshot, drop handle i, second open attempt as Database/SingleWriterTx/OptimisticTx} for each of the three database kinds: while a Database or Keyspace handle lives every second open must return Locked and leave a recursive hash of the directory unchanged; after the last drop all three kinds must open and show the last write; with real worker threads (1 and 2) additionally no thread named fjall:worker may remain (polled up to 500 ms). (B) version marker: every byte string of length 0..4 (thorough 0..5) over {F,J,L,0,1,2,3,4,255}, every version byte after the magic, every version byte followed by one trailing byte of that alphabet and every version byte of the alphabet followed by two, extra bytes after a correct header, on a fresh database; a reduced set (absent, truncated, wrong magic, other versions) on a database with tables and on one whose 0.jnl was rotated away; the v1/v2 fixtures: anything but FJL\\x03 must be refused with InvalidVersion and an unchanged directory hash. (E3) handles dropped on different threads while fjall's own workers have queued work: all schedules up to the preemption bound."));
    o.assumptions = vec![
        "snapshots/iterators hold no Database handle and are not required to keep the lock".into(),
        "a correct header followed by extra bytes is outside what the property defines: either outcome is accepted and counted".into(),
        "that the journal is synced by the drop is decided behaviourally by C09's drop fence".into(),
    ];
    if completed_depth < 3 {
        o.machinery_errors.push(format!("handle programs completed only depth {completed_depth} < 3"));
    }
    if mdone < required_markers {
        o.machinery_errors.push(format!("marker sweep: time cap hit after {mdone} cases, before the required core of {required_markers}"));
    }
    let mut f = findings.into_inner().unwrap();
    f.sort_by_key(|x| (x.sig.clone(), x.program.len()));
    o.findings.extend(f);
    o.wall_s = t0.elapsed().as_secs_f64();
    finish(o)
}

pub fn replay(v: &serde_json::Value) -> i32 {
    if v["engine"] == "E3-schedcheck" {
        let tier = v["variant"]["tier"].as_str().unwrap_or("quick");
        let bi = v["variant"]["body_index"].as_u64().unwrap_or(0) as usize;
        let choices: Vec<usize> = v["variant"]["choices"].as_array().map(|a| a.iter().filter_map(|c| c.as_u64().map(|c| c as usize)).collect()).unwrap_or_default();
        return match crate::e3::with_variants(crate::props::c17e3::bodies(tier), tier).get(bi) {
            Some(b) => crate::e3::replay_schedule(&*b.body, &choices),
            None => 2,
        };
    }
    println!("replay: re-run `./run C17 quick`; case: {}", v["program"]);
    1
}
