//! C17 (E3 part): handles dropped on different threads while fjall's own workers have queued work.

use crate::e3::*;
use crate::sched::*;
use crate::world::Violation;
use fjall::{Database, KeyspaceCreateOptions};
use std::path::Path;
use std::sync::atomic::{AtomicUsize, Ordering};
use std::sync::{Arc, Mutex};

pub struct DropBody {
    pub name: &'static str,
    pub workers: usize,
    /// number of client threads, each holding a database clone and a keyspace handle
    pub clients: usize,
    pub queued_rotations: usize,
}

/// files of the database directory that this process still has open
fn open_fds_under(dir: &Path) -> Vec<String> {
    let mut v = vec![];
    if let Ok(rd) = std::fs::read_dir("/proc/self/fd") {
        for e in rd.flatten() {
            if let Ok(t) = std::fs::read_link(e.path()) {
                if t.starts_with(dir) {
                    v.push(t.strip_prefix(dir).map(|p| p.display().to_string()).unwrap_or_default());
                }
            }
        }
    }
    v.sort();
    v
}

impl Body for DropBody {
    fn name(&self) -> String {
        self.name.to_string()
    }
    fn launch(&self, dir: &Path) -> Launched {
        let db = Database::builder(dir).worker_threads_unchecked(self.workers).open().expect("open");
        let ks = db.keyspace("x", KeyspaceCreateOptions::default).expect("ks");
        for i in 0..self.queued_rotations {
            ks.insert("a", format!("{i}")).expect("ins");
            ks.rotate_memtable().expect("rotate");
        }
        ks.insert("a", "last").expect("ins");
        let done = Arc::new(AtomicUsize::new(0));
        let verdict: Arc<Mutex<Option<Violation>>> = Arc::new(Mutex::new(None));
        let n = self.clients;
        let mut handles = vec![];
        const NAMES: [&str; 3] = ["holder0", "holder1", "holder2"];
        for i in 0..n {
            let db = db.clone();
            let ks = ks.clone();
            let done = done.clone();
            let verdict = verdict.clone();
            let dirp = dir.to_path_buf();
            handles.push(spawn_client(NAMES[i], move || {
                client_point("holder.start");
                // a second open while handles are alive must be refused
                if let Ok(_) = Database::builder(&dirp).worker_threads_unchecked(0).open() {
                    *verdict.lock().unwrap() = Some(Violation::new("second_open.succeeded", "second open succeeded while handles are alive"));
                }
                client_point("holder.drop_ks");
                drop(ks);
                client_point("holder.drop_db");
                drop(db);
                let finished = done.fetch_add(1, Ordering::SeqCst) + 1;
                if finished == n {
                    // this thread dropped the last handle: everything must be released now
                    let fds = open_fds_under(&dirp);
                    if !fds.is_empty() {
                        *verdict.lock().unwrap() = Some(Violation::new(
                            "after_last_drop.files_still_open",
                            format!("the last handle drop returned but the process still holds {:?} open (journal not yet closed/synced, a background thread is still running)", fds),
                        ));
                        return;
                    }
                    match Database::builder(&dirp).worker_threads_unchecked(0).open() {
                        Ok(d) => {
                            let k = d.keyspace("x", KeyspaceCreateOptions::default).expect("ks");
                            let v = k.get("a").ok().flatten();
                            if v.as_deref() != Some(b"last".as_slice()) {
                                *verdict.lock().unwrap() = Some(Violation::new("after_last_drop.content", format!("a={v:?}")));
                            }
                        }
                        Err(e) => {
                            *verdict.lock().unwrap() = Some(Violation::new("after_last_drop.open_failed", format!("{e:?}")));
                        }
                    }
                }
            }));
        }
        drop(ks);
        drop(db);
        let judge = Box::new(move |_dir: &Path| -> Result<String, Violation> {
            match verdict.lock().unwrap().take() {
                Some(v) => Err(v),
                None => Ok("released".into()),
            }
        });
        Launched { handles, judge }
    }
}

pub fn bodies(tier: &str) -> Vec<BodySpec> {
    let q = tier == "quick";
    let b = |body: DropBody, bound: usize, secs: f64| BodySpec { body: Arc::new(body), bound, secs };
    let mut v = vec![
        b(DropBody { name: "2 holders, 1 worker, 1 queued flush", workers: 1, clients: 2, queued_rotations: 1 }, if q { 1 } else { 2 }, if q { 8.0 } else { 200.0 }),
        b(DropBody { name: "1 holder, 2 workers, 2 queued flushes", workers: 2, clients: 1, queued_rotations: 2 }, if q { 1 } else { 2 }, if q { 8.0 } else { 200.0 }),
    ];
    if !q {
        v.push(b(DropBody { name: "3 holders, 2 workers", workers: 2, clients: 3, queued_rotations: 1 }, 2, 300.0));
    }
    v
}
