//! C18 — compaction filters act only where assigned, and only as their verdicts say (E1).

use crate::core::Probe;
use crate::report::*;
use crate::seqprop::*;
use crate::seqrun::*;
use crate::world::*;
use serde_json::json;
use std::time::{Duration, Instant};

fn alpha() -> Alpha {
    let mut a = Alpha::empty();
    a.ins = vec![(0, 0, 0), (0, 0, 1), (0, 2, 0), (0, 1, 0), (1, 0, 0), (1, 2, 1)];
    a.rem = vec![(0, 0)];
    a.batches = vec![vec![Item { ks: 0, k: 2, v: Some(1) }, Item { ks: 1, k: 2, v: Some(0) }]];
    a.rotate = vec![0, 1];
    a.major = vec![0, 1];
    a.reopen = true;
    a.max_reopen = 1;
    a
}

fn alpha_narrow(big: bool) -> Alpha {
    let mut a = Alpha::empty();
    a.ins = if big { vec![(0, 2, 3), (0, 0, 3), (0, 2, 0)] } else { vec![(0, 0, 0), (0, 2, 0), (0, 2, 1)] };
    a.rem = vec![(0, 2)];
    a.rotate = vec![0];
    a.major = vec![0];
    a.reopen = true;
    a.max_reopen = 1;
    a
}

fn mk(name: String, cfg: Cfg, alpha: Alpha, spec: FilterSpec, depth: usize, min_depth: usize, secs: f64) -> Pass {
    mkp(name, cfg, alpha, spec, "", depth, min_depth, secs)
}

fn mkp(name: String, cfg: Cfg, alpha: Alpha, spec: FilterSpec, pfx: &str, depth: usize, min_depth: usize, secs: f64) -> Pass {
    let mut prop = SeqProp::new("C18", cfg, alpha);
    prop.prefix = prefix(pfx);
    prop.probe = Probe::Lite;
    prop.filter = Some(spec.assigner());
    prop.filter_oracle = Some(spec);
    Pass { name, prop, depth, min_depth, budget: Duration::from_secs_f64(secs), dedup_extra: 0, dedup_budget: Duration::ZERO }
}

pub fn passes(tier: &str) -> Vec<Pass> {
    let d = Cfg::default2();
    let l2 = Cfg { strat: Strat::LeveledL2, ..d.clone() };
    let q = tier == "quick";
    let mut v = vec![];
    // every assignment function over {x,y} x the combined filter (remove a* and replace b)
    for (ax, ay) in [(true, false), (false, true), (true, true), (false, false)] {
        let spec = FilterSpec { assign: [ax, ay, false], kind: 3 };
        v.push(mk(format!("assign(x={ax},y={ay})/remove-a+replace-b"), d.clone(), alpha(), spec, if q { 3 } else { 5 }, 3, if q { 2.0 } else { 200.0 }));
        v.push(mkp(format!("assign(x={ax},y={ay})/remove-a+replace-b/from-L0"), d.clone(), alpha(), spec, "both_flushed", if q { 4 } else { 5 }, 3, if q { 6.0 } else { 200.0 }));
    }
    for kind in [0u8, 1, 2] {
        let spec = FilterSpec { assign: [true, false, false], kind };
        v.push(mk(format!("narrow/kind{kind}/leveled-l0=2"), Cfg { nks: 1, ..l2.clone() }, alpha_narrow(false), spec, if q { 5 } else { 7 }, 4, if q { 4.0 } else { 120.0 }));
    }
    // journal rotation in play: a sealed journal is replayed on reopen next to filtered tables / evicted while a keyspace
    // the filter emptied (or that was never flushed) still needs it
    {
        let mut a = alpha();
        a.jrot = true;
        v.push(mkp("sealed-journal replay over filtered tables".into(), d.clone(), a.clone(), FilterSpec { assign: [true, false, false], kind: 3 }, "sealed_journal_x_half_flushed", if q { 3 } else { 4 }, 2, if q { 4.0 } else { 150.0 }));
        // (a third, idle keyspace z exists: watermark collection must not stop at a keyspace with empty memtables)
        v.push(mkp("journal eviction with an unflushed kept item".into(), Cfg { nks: 3, ..d.clone() }, a, FilterSpec { assign: [true, false, false], kind: 1 }, "x_unflushed_y_rotated", if q { 3 } else { 4 }, 2, if q { 4.0 } else { 150.0 }));
    }
    v.push(mk("narrow-big/blob/kind3".into(), Cfg { nks: 1, blob: true, ..d.clone() }, alpha_narrow(true), FilterSpec { assign: [true, false, false], kind: 3 }, if q { 4 } else { 6 }, 3, if q { 4.0 } else { 120.0 }));
    v
}

pub fn run(tier: &str) -> i32 {
    let t0 = Instant::now();
    let mut o = Outcome::new("C18", tier, "model_checking");
    let ps = with_dedup(passes(tier), tier);
    let wit = run_passes(&mut o, &ps);
    o.cov("rule", json!("for every assignment function over keyspace names {x,y} -> {none, F} and deterministic filters F decided from the key (keep all / remove keys starting with a / replace the value of b / both), every enabled program over {insert, remove, cross-keyspace batch, rotate, every queued worker message (flush and compaction), major compaction, reopen with the same assigner} up to the per-pass depth runs on the real code; per key a small automaton is checked after every program: original or filtered form, filtered stays filtered until the key is written again; kept keys and every key of an unassigned keyspace equal the plain model; point reads and scans agree (full observation against the effective model)."));
    o.assumptions = vec!["verdicts Keep / Remove / ReplaceValue only (Destroy and RemoveWeak are outside the property)".into()];
    if wit.compacted == 0 || wit.reopened == 0 {
        o.machinery_errors.push(format!("reachability witness missing: {:?}", wit));
    }
    o.wall_s = t0.elapsed().as_secs_f64();
    finish(o)
}

pub fn replay(v: &serde_json::Value) -> i32 {
    let name = v["variant"]["pass"].as_str().unwrap_or("");
    let plen = v["variant"]["prefix_len"].as_u64().unwrap_or(0) as usize;
    let program: Vec<String> = v["program"].as_array().map(|a| a.iter().filter_map(|s| s.as_str().map(String::from)).collect()).unwrap_or_default();
    for tier in ["quick", "thorough"] {
        if let Some(p) = passes(tier).into_iter().find(|p| p.name == name) {
            return replay_with(&p, &program, plen);
        }
    }
    2
}
