pub mod c01;
pub mod c04;
pub mod c03;
