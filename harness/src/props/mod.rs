pub mod c01;
