//! Verdict plumbing: known-findings file, replay files, evidence files, exit codes.

use serde_json::{json, Value};
use std::collections::BTreeMap;
use std::path::{Path, PathBuf};

pub fn verif_root() -> PathBuf {
    std::env::var("FJV_ROOT").map(PathBuf::from).unwrap_or_else(|_| PathBuf::from("/verif"))
}

#[derive(Clone, Debug)]
pub struct Finding {
    /// canonical signature (no spaces)
    pub sig: String,
    pub engine: String,
    /// everything `fjv replay` needs to rebuild the property instance (pass name, cfg, ...)
    pub variant: Value,
    pub program: Vec<String>,
    pub clause: String,
    pub detail: String,
}

pub struct Known {
    pub property: String,
    pub key: String,
    pub text: String,
}

pub fn load_known() -> Vec<Known> {
    let p = verif_root().join("known_findings.txt");
    let s = std::fs::read_to_string(p).unwrap_or_default();
    let mut out = vec![];
    for line in s.lines() {
        let line = line.trim();
        if let Some(rest) = line.strip_prefix("known:") {
            let mut property = String::new();
            let mut key = String::new();
            let mut text = vec![];
            for tok in rest.split_whitespace() {
                if let Some(p) = tok.strip_prefix("property=") {
                    property = p.to_string();
                } else if let Some(k) = tok.strip_prefix("key=") {
                    if key.is_empty() {
                        key = k.to_string();
                    } else {
                        text.push(tok.to_string());
                    }
                } else {
                    text.push(tok.to_string());
                }
            }
            out.push(Known { property, key, text: text.join(" ") });
        }
    }
    out
}

pub struct Outcome {
    pub id: String,
    pub tier: String,
    pub level: &'static str,
    pub coverage: serde_json::Map<String, Value>,
    pub assumptions: Vec<String>,
    pub findings: Vec<Finding>,
    pub wall_s: f64,
    /// machinery problems (vacuity, replay divergence, cap before minimum bound) => exit 2
    pub machinery_errors: Vec<String>,
}

impl Outcome {
    pub fn new(id: &str, tier: &str, level: &'static str) -> Self {
        Outcome {
            id: id.to_string(),
            tier: tier.to_string(),
            level,
            coverage: serde_json::Map::new(),
            assumptions: vec![],
            findings: vec![],
            wall_s: 0.0,
            machinery_errors: vec![],
        }
    }
    pub fn cov(&mut self, k: &str, v: Value) {
        self.coverage.insert(k.to_string(), v);
    }
    pub fn cov_add(&mut self, k: &str, n: u64) {
        let cur = self.coverage.get(k).and_then(|v| v.as_u64()).unwrap_or(0);
        self.coverage.insert(k.to_string(), json!(cur + n));
    }
    pub fn sample(&mut self, s: Value) {
        let e = self.coverage.entry("samples".to_string()).or_insert_with(|| json!([]));
        if let Some(a) = e.as_array_mut() {
            if a.len() < 12 {
                a.push(s);
            }
        }
    }
}

fn fnv(s: &str) -> u64 {
    let mut h: u64 = 0xcbf29ce484222325;
    for b in s.bytes() {
        h ^= u64::from(b);
        h = h.wrapping_mul(0x100000001b3);
    }
    h
}

pub fn write_replay(id: &str, f: &Finding) -> PathBuf {
    let dir = verif_root().join("replays").join(id);
    let _ = std::fs::create_dir_all(&dir);
    let name = format!("{:016x}.json", fnv(&format!("{}{:?}", f.sig, f.program)));
    let path = dir.join(name);
    let v = json!({
        "property": id,
        "engine": f.engine,
        "signature": f.sig,
        "variant": f.variant,
        "program": f.program,
        "clause": f.clause,
        "detail": f.detail,
        "replay": format!("./run --replay {}", path.display()),
    });
    let _ = std::fs::write(&path, serde_json::to_string_pretty(&v).unwrap());
    path
}

/// Prints verdict lines, writes replays + evidence, returns the process exit code.
pub fn finish(mut o: Outcome) -> i32 {
    let known = load_known();
    let mut by_sig: BTreeMap<String, Finding> = BTreeMap::new();
    for f in o.findings.drain(..) {
        // a failure of the harness itself (a prepared prefix that no longer runs, a copy that failed, a scheduler that
        // got stuck) is a machinery error (exit 2), never a verdict about the property
        // (a panic raised in the harness crate's own sources shows a path relative to the crate: " at src/...")
        let own_panic = f.clause.contains("panic") && f.detail.contains(" at src/") && !f.detail.contains("/repo/src/");
        if f.clause == "harness" || f.clause.starts_with("machinery") || own_panic {
            if o.machinery_errors.len() < 5 {
                o.machinery_errors.push(format!("{} [{}]: {}", f.clause, f.program.join("; "), f.detail));
            }
            continue;
        }
        by_sig.entry(f.sig.clone()).or_insert(f);
    }
    let mut new_violations = 0;
    let mut known_hits: BTreeMap<String, bool> = BTreeMap::new();
    for k in known.iter().filter(|k| k.property == o.id) {
        known_hits.insert(k.key.clone(), false);
    }
    let mut lines = vec![];
    for (sig, f) in &by_sig {
        if let Some(hit) = known_hits.get_mut(sig) {
            *hit = true;
            let path = write_replay(&o.id, f);
            lines.push(format!(
                "KNOWN-FINDING: property={} key={} reproduced: [{}] -> {} :: {} (replay={})",
                o.id,
                sig,
                f.program.join("; "),
                f.clause,
                f.detail,
                path.display()
            ));
        } else {
            new_violations += 1;
            let path = write_replay(&o.id, f);
            println!("  violation signature: {sig}");
            println!("  program: [{}]", f.program.join("; "));
            println!("  clause: {} :: {}", f.clause, f.detail);
            lines.push(format!("VIOLATION property={} replay={}", o.id, path.display()));
        }
    }
    for k in known.iter().filter(|k| k.property == o.id) {
        if !known_hits.get(&k.key).copied().unwrap_or(false) {
            lines.push(format!(
                "KNOWN-FINDING: property={} key={} (listed; not reached by this tier's bounds) {}",
                o.id, k.key, k.text
            ));
        }
    }
    for l in &lines {
        println!("{l}");
    }
    o.cov("known_findings_reproduced", json!(known_hits.values().filter(|b| **b).count()));
    let ev = json!({
        "property_id": o.id,
        "tier": o.tier,
        "seed": std::env::var("VERIF_SEED").ok().and_then(|s| s.parse::<i64>().ok()).unwrap_or(0),
        "level": o.level,
        "coverage": Value::Object(o.coverage.clone()),
        "assumptions": o.assumptions,
        "wall_s": o.wall_s,
        "violations": new_violations,
        "machinery_errors": o.machinery_errors,
    });
    let evdir = verif_root().join("evidence");
    let _ = std::fs::create_dir_all(&evdir);
    let evpath = evdir.join(format!("{}.json", o.id));
    if let Err(e) = std::fs::write(&evpath, serde_json::to_string_pretty(&ev).unwrap()) {
        eprintln!("cannot write evidence {}: {e}", evpath.display());
        return 2;
    }
    if new_violations > 0 {
        return 1;
    }
    if !o.machinery_errors.is_empty() {
        for m in &o.machinery_errors {
            eprintln!("MACHINERY-ERROR property={} {m}", o.id);
        }
        return 2;
    }
    println!("OK property={} tier={} wall={:.1}s evidence={}", o.id, o.tier, o.wall_s, evpath.display());
    0
}

pub fn read_replay(path: &Path) -> Result<Value, String> {
    let s = std::fs::read_to_string(path).map_err(|e| format!("{e}"))?;
    serde_json::from_str(&s).map_err(|e| format!("{e}"))
}
