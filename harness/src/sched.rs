//! E3: a CHESS-style controlled scheduler over real OS threads.
//!
//! Exactly one registered thread runs at a time. A thread runs until its next hook event
//! (`point`, `block_until`, `spin`, `thread_exit`); at every such event the scheduler computes the enabled
//! set and takes the next choice from the explorer's choice list (default 0 = keep running the current
//! thread if it is enabled, else the lowest thread id). Iterative context bounding explores every schedule
//! with at most `bound` preemptions.

use std::cell::Cell;
use std::sync::{Arc, Condvar, Mutex, OnceLock};
use std::time::{Duration, Instant};

#[derive(Clone, Copy, PartialEq, Eq, Debug)]
enum Status {
    /// holds the baton
    Running,
    /// parked at a plain scheduling point (always enabled)
    AtPoint,
    /// parked before a blocking acquisition; enabled iff probe() is true
    Blocked,
    /// parked inside a poll loop; enabled iff another thread has made a step since
    Spinning,
    Finished,
}

struct ProbePtr(*const (dyn Fn() -> bool + Sync));
unsafe impl Send for ProbePtr {}

struct Th {
    name: String,
    status: Status,
    site: &'static str,
    probe: Option<ProbePtr>,
    /// global step count when the thread started spinning
    spin_since: u64,
    gen: u64,
}

#[derive(Clone, Debug)]
pub struct Decision {
    /// enabled thread ids in canonical order (yielding thread first if enabled)
    pub enabled: Vec<usize>,
    pub chosen: usize,
    /// would choosing another thread here be a preemption?
    pub preemptible: bool,
    /// (thread, site) that is resumed
    pub resumed: (usize, &'static str),
}

#[derive(Clone, Debug, PartialEq, Eq)]
pub enum EndState {
    AllFinished,
    Deadlock(String),
    Livelock(String),
    Diverged(String),
    Stuck(String),
}

struct State {
    gen: u64,
    threads: Vec<Th>,
    current: Option<usize>,
    expected: usize,
    prefix: Vec<usize>,
    trace: Vec<Decision>,
    steps: u64,
    end: Option<EndState>,
    consecutive_spin_only: u32,
    last_progress: Instant,
    horizon: usize,
}

pub struct Sched {
    st: Mutex<State>,
    cv: Condvar,
}

thread_local! {
    static TID: Cell<Option<(u64, usize)>> = const { Cell::new(None) };
    /// threads that must never be put under the scheduler (the harness main thread)
    static UNCONTROLLED: Cell<bool> = const { Cell::new(false) };
}

/// Marks the thread Finished when the OS thread really ends (after its closure and captures were dropped).
struct ExitGuard;
impl Drop for ExitGuard {
    fn drop(&mut self) {
        sched().yield_with(Status::Finished, "thread.exit", None);
    }
}
thread_local! {
    static GUARD: std::cell::RefCell<Option<ExitGuard>> = const { std::cell::RefCell::new(None) };
}

pub fn mark_uncontrolled() {
    UNCONTROLLED.with(|u| u.set(true));
}

static SCHED: OnceLock<Arc<Sched>> = OnceLock::new();

pub fn sched() -> &'static Arc<Sched> {
    SCHED.get_or_init(|| {
        Arc::new(Sched {
            st: Mutex::new(State {
                gen: 0,
                threads: vec![],
                current: None,
                expected: 0,
                prefix: vec![],
                trace: vec![],
                steps: 0,
                end: None,
                consecutive_spin_only: 0,
                last_progress: Instant::now(),
                horizon: 20_000,
            }),
            cv: Condvar::new(),
        })
    })
}

fn me(gen: u64) -> Option<usize> {
    TID.with(|t| t.get()).and_then(|(g, id)| if g == gen { Some(id) } else { None })
}

impl Sched {
    /// Starts a new execution (generation). Threads of older generations stay parked forever.
    pub fn begin(&self, prefix: Vec<usize>) {
        let mut st = self.st.lock().unwrap();
        st.gen += 1;
        st.threads.clear();
        st.current = None;
        st.expected = 0;
        st.prefix = prefix;
        st.trace.clear();
        st.steps = 0;
        st.end = None;
        st.consecutive_spin_only = 0;
        st.last_progress = Instant::now();
    }

    /// Logical clock (number of scheduling decisions so far).
    pub fn now(&self) -> u64 {
        self.st.lock().unwrap().steps
    }

    /// The calling (unregistered) thread announces a thread it is about to spawn; waits until earlier
    /// announced threads have registered, so thread ids are assigned in spawn order.
    pub fn expect_thread(&self) {
        let mut st = self.st.lock().unwrap();
        let deadline = Instant::now() + Duration::from_secs(10);
        while st.expected > 0 {
            let (g, to) = self.cv.wait_timeout(st, Duration::from_millis(100)).unwrap();
            st = g;
            if to.timed_out() && Instant::now() > deadline {
                break;
            }
        }
        st.expected += 1;
    }

    /// Registers the calling thread and parks it until it is scheduled.
    pub fn thread_start(&self, name: &str) {
        if UNCONTROLLED.with(|u| u.get()) {
            return;
        }
        let mut st = self.st.lock().unwrap();
        let gen = st.gen;
        if me(gen).is_some() {
            return;
        }
        // a stale thread of an older generation must never join a newer execution
        if TID.with(|t| t.get()).is_some() {
            drop(st);
            loop {
                std::thread::park();
            }
        }
        let id = st.threads.len();
        st.threads.push(Th { name: name.to_string(), status: Status::AtPoint, site: "thread.start", probe: None, spin_since: 0, gen });
        TID.with(|t| t.set(Some((gen, id))));
        GUARD.with(|g| *g.borrow_mut() = Some(ExitGuard));
        st.expected = st.expected.saturating_sub(1);
        self.cv.notify_all();
        self.park(st, gen, id);
    }

    fn park(&self, mut st: std::sync::MutexGuard<'_, State>, gen: u64, id: usize) {
        loop {
            if st.gen != gen {
                // execution abandoned: stay parked forever (leaked)
                drop(st);
                loop {
                    std::thread::park();
                }
            }
            if st.current == Some(id) && st.end.is_none() {
                st.threads[id].status = Status::Running;
                st.threads[id].probe = None;
                return;
            }
            st = self.cv.wait(st).unwrap();
        }
    }

    fn yield_with(&self, status: Status, site: &'static str, probe: Option<ProbePtr>) {
        let mut st = self.st.lock().unwrap();
        let gen = st.gen;
        let Some(id) = me(gen) else {
            return;
        };
        if st.end.is_some() {
            // execution already ended abnormally: park forever
            drop(st);
            loop {
                std::thread::park();
            }
        }
        {
            let steps = st.steps;
            let th = &mut st.threads[id];
            th.status = status;
            th.site = site;
            th.probe = probe;
            if status == Status::Spinning {
                th.spin_since = steps;
            }
        }
        let finished = status == Status::Finished;
        st = self.decide(st, Some(id));
        if finished {
            return;
        }
        self.park(st, gen, id);
    }

    /// Picks the next thread. Called with the lock held by the thread giving up the baton.
    fn decide<'a>(&'a self, mut st: std::sync::MutexGuard<'a, State>, yielding: Option<usize>) -> std::sync::MutexGuard<'a, State> {
        // wait for announced threads to register
        let deadline = Instant::now() + Duration::from_secs(10);
        while st.expected > 0 {
            let (g, _) = self.cv.wait_timeout(st, Duration::from_millis(50)).unwrap();
            st = g;
            if Instant::now() > deadline {
                st.end = Some(EndState::Stuck("announced thread never registered".into()));
                st.current = None;
                self.cv.notify_all();
                return st;
            }
        }
        let steps = st.steps;
        let mut enabled: Vec<usize> = vec![];
        let mut only_spinners = true;
        for (i, th) in st.threads.iter().enumerate() {
            let en = match th.status {
                Status::AtPoint => true,
                Status::Blocked => th.probe.as_ref().map(|p| unsafe { (*p.0)() }).unwrap_or(true),
                Status::Spinning => steps > th.spin_since || Some(i) != yielding,
                Status::Running | Status::Finished => false,
            };
            if en {
                enabled.push(i);
                if th.status != Status::Spinning {
                    only_spinners = false;
                }
            }
        }
        // a spinner that yields right now is not enabled again until someone else moved
        if let Some(y) = yielding {
            if st.threads[y].status == Status::Spinning {
                enabled.retain(|i| *i != y);
                // if nobody else can run, the spinner may re-test its condition (time passes) — bounded by livelock detection
                if enabled.is_empty() {
                    enabled.push(y);
                }
            }
        }
        if enabled.is_empty() {
            let all_done = st.threads.iter().all(|t| t.status == Status::Finished);
            st.end = Some(if all_done {
                EndState::AllFinished
            } else {
                EndState::Deadlock(self.describe(&st))
            });
            st.current = None;
            self.cv.notify_all();
            return st;
        }
        if only_spinners && enabled.iter().all(|i| st.threads[*i].status == Status::Spinning) {
            st.consecutive_spin_only += 1;
            if st.consecutive_spin_only > 200 {
                st.end = Some(EndState::Livelock(self.describe(&st)));
                st.current = None;
                self.cv.notify_all();
                return st;
            }
        } else {
            st.consecutive_spin_only = 0;
        }
        if st.trace.len() >= st.horizon {
            st.end = Some(EndState::Livelock(format!("horizon of {} decisions exceeded: {}", st.horizon, self.describe(&st))));
            st.current = None;
            self.cv.notify_all();
            return st;
        }
        // canonical order: yielding thread first if enabled
        let mut preemptible = false;
        if let Some(y) = yielding {
            if let Some(pos) = enabled.iter().position(|i| *i == y) {
                enabled.remove(pos);
                enabled.insert(0, y);
                // switching away from a thread that could continue is a preemption (CHESS): a thread parked before
                // an acquisition whose probe holds is enabled, exactly like one at a plain point; only a spinner
                // (it yields by design) hands over for free
                preemptible = matches!(st.threads[y].status, Status::AtPoint | Status::Blocked);
            }
        }
        let k = st.trace.len();
        let choice = if k < st.prefix.len() { st.prefix[k] } else { 0 };
        if choice >= enabled.len() {
            st.end = Some(EndState::Diverged(format!("decision {k}: choice {choice} out of range ({} enabled)", enabled.len())));
            st.current = None;
            self.cv.notify_all();
            return st;
        }
        let chosen = enabled[choice];
        let site = st.threads[chosen].site;
        st.trace.push(Decision { enabled, chosen: choice, preemptible, resumed: (chosen, site) });
        st.steps += 1;
        st.current = Some(chosen);
        st.last_progress = Instant::now();
        self.cv.notify_all();
        st
    }

    fn describe(&self, st: &State) -> String {
        st.threads
            .iter()
            .enumerate()
            .map(|(i, t)| format!("T{i}:{}@{}[{:?}]", t.name, t.site, t.status))
            .collect::<Vec<_>>()
            .join(" ")
    }

    /// Called by the (unregistered) main thread: hands out the first baton and waits for the end of the execution.
    pub fn run_to_end(&self, watchdog: Duration) -> (EndState, Vec<Decision>, Vec<String>) {
        let mut st = self.st.lock().unwrap();
        st = self.decide(st, None);
        loop {
            if let Some(e) = st.end.clone() {
                let names = st.threads.iter().map(|t| t.name.clone()).collect();
                return (e, st.trace.clone(), names);
            }
            let (g, _) = self.cv.wait_timeout(st, Duration::from_millis(20)).unwrap();
            st = g;
            if st.end.is_none() && st.last_progress.elapsed() > watchdog {
                let d = self.describe(&st);
                st.end = Some(EndState::Stuck(format!("no scheduling event for {:?} (a thread blocked inside the OS = missing hook?): {d}", watchdog)));
                st.current = None;
                self.cv.notify_all();
            }
        }
    }
}

// ------------------------------------------------------------------ hook table

/// Sites after which the thread touches no shared fjall state before its next scheduling event
/// ("after unlock" points): never a branching point.
const LOCAL_SITES: [&str; 4] = ["write.unlocked", "batch.unlocked", "rotate.unlocked", "thread.exiting"];

/// Optional focus: when set, only sites starting with one of these prefixes (and client-side sites) are scheduling
/// points; all other hooked sites run through. Used by "focused" bodies to reach higher preemption bounds on the
/// sites a property is about (the unfocused variant of the same body keeps every site at a lower bound).
pub static FOCUS: Mutex<Option<Vec<&'static str>>> = Mutex::new(None);

/// When set, acquiring a free lock is a scheduling point too (no fast path). Bodies tagged "[all-locks]".
pub static ALL_LOCKS: std::sync::atomic::AtomicBool = std::sync::atomic::AtomicBool::new(false);

fn h_point(site: &'static str) {
    if LOCAL_SITES.contains(&site) {
        return;
    }
    if !site.starts_with("client.") && !site.starts_with("closer.") && !site.starts_with("holder.") {
        if let Some(f) = FOCUS.lock().unwrap().as_ref() {
            if !f.iter().any(|p| site.starts_with(p)) {
                return;
            }
        }
    }
    sched().yield_with(Status::AtPoint, site, None);
}

fn h_block(probe: &(dyn Fn() -> bool + Sync), site: &'static str) {
    // Fast path: the resource is free. Not a scheduling point: the code between the thread's previous point and
    // this acquisition is local, so "another thread acquires first" is the schedule that preempts at that point.
    // (the journal lock is the exception: it orders every write, and a seeded change showed that shared state can
    // be touched right before it — so its acquisition is always a scheduling point)
    if site != "journal.lock" && !ALL_LOCKS.load(std::sync::atomic::Ordering::Relaxed) && probe() {
        return;
    }
    // lifetime erasure: the closure lives on the parked thread's stack for as long as it is parked
    let p: *const (dyn Fn() -> bool + Sync) = unsafe { std::mem::transmute(probe) };
    sched().yield_with(Status::Blocked, site, Some(ProbePtr(p)));
}

fn h_spin(site: &'static str) -> bool {
    let s = sched();
    let registered = {
        let st = s.st.lock().unwrap();
        me(st.gen).is_some()
    };
    if !registered {
        return false;
    }
    s.yield_with(Status::Spinning, site, None);
    true
}

fn h_expect() {
    sched().expect_thread();
}

fn h_start(name: &'static str) {
    sched().thread_start(name);
}

fn h_exit() {
    // the thread still drops its closure state after this hook; the real end is the TLS ExitGuard
    let _ = ();
}

thread_local! {
    pub static E3_FAKE_JOURNAL_POS: Cell<Option<u64>> = const { Cell::new(None) };
}
pub static GLOBAL_FAKE_JOURNAL_POS: std::sync::atomic::AtomicU64 = std::sync::atomic::AtomicU64::new(0);

fn h_jpos() -> Option<u64> {
    let g = GLOBAL_FAKE_JOURNAL_POS.load(std::sync::atomic::Ordering::Relaxed);
    if g > 0 {
        return Some(g);
    }
    crate::world::FAKE_JOURNAL_POS.with(|c| c.get())
}

pub fn install_sched_hooks() {
    fjall::verif::install(fjall::verif::Hooks {
        point: h_point,
        block_until: h_block,
        spin: h_spin,
        expect_thread: h_expect,
        thread_start: h_start,
        thread_exit: h_exit,
        journal_pos: h_jpos,
    });
}

/// Spawns a client thread under the scheduler.
pub fn spawn_client<F: FnOnce() + Send + 'static>(name: &'static str, f: F) -> std::thread::JoinHandle<()> {
    let s = sched().clone();
    s.expect_thread();
    std::thread::spawn(move || {
        sched().thread_start(name);
        let r = std::panic::catch_unwind(std::panic::AssertUnwindSafe(f));
        if r.is_err() {
            PANICS.lock().unwrap().push(format!("{name}: {}", crate::explore::take_panic_msg()));
        }
    })
}

pub static PANICS: Mutex<Vec<String>> = Mutex::new(vec![]);

/// A client-side scheduling point (harness bodies may add their own).
pub fn client_point(site: &'static str) {
    h_point(site);
}

/// Blocks the calling client until `probe` holds.
pub fn client_block_until(probe: &(dyn Fn() -> bool + Sync), site: &'static str) {
    h_block(probe, site);
}

// ------------------------------------------------------------------ exploration

pub struct Exec<R> {
    pub end: EndState,
    pub trace: Vec<Decision>,
    pub names: Vec<String>,
    pub result: R,
}

pub fn trace_str(trace: &[Decision], names: &[String]) -> Vec<String> {
    trace
        .iter()
        .map(|d| {
            let (t, site) = d.resumed;
            format!("T{t}:{}@{site}", names.get(t).map(String::as_str).unwrap_or("?"))
        })
        .collect()
}

pub fn choices_of(trace: &[Decision]) -> Vec<usize> {
    trace.iter().map(|d| d.chosen).collect()
}

pub fn preemptions(trace: &[Decision]) -> usize {
    trace.iter().filter(|d| d.preemptible && d.chosen != 0).count()
}

pub struct ExploreStats {
    pub schedules: u64,
    pub decisions: u64,
    pub max_preemptions_seen: usize,
    pub capped: bool,
    pub replay_checks: u64,
    pub replay_divergences: u64,
    /// largest preemption count c such that every schedule with <= c preemptions was executed
    pub completed_bound: Option<usize>,
}

/// Iterative context bounding, cheapest first: schedules are executed in order of their number of preemptions
/// (all with 0, then all with 1, ...), each exactly once, up to `bound`. `run(choices)` executes the body once under
/// the given choice prefix. `visit` sees every execution; returning `false` stops the exploration.
/// `shard` = (index, count) partitions the top-level branches. `completed_bound` = largest c such that every
/// schedule with <= c preemptions (of this shard) was executed.
pub fn explore_schedules<R>(
    bound: usize,
    deadline: Instant,
    shard: (usize, usize),
    run: &mut dyn FnMut(&[usize]) -> Exec<R>,
    visit: &mut dyn FnMut(&Exec<R>, &[usize]) -> bool,
) -> ExploreStats {
    use std::rc::Rc;
    let mut stats = ExploreStats { schedules: 0, decisions: 0, max_preemptions_seen: 0, capped: false, replay_checks: 0, replay_divergences: 0, completed_bound: None };
    // queues[c] = pending prefixes whose own cost is c: (parent choices, branch position, alternative)
    let mut queues: Vec<std::collections::VecDeque<(Rc<Vec<usize>>, usize, usize)>> = (0..=bound).map(|_| Default::default()).collect();
    let mut root_done = false;
    let mut top_branch_idx = 0usize;
    let mut stopped = false;
    loop {
        // next prefix: the root first, then the cheapest queue
        let (prefix, is_root, cost_of_prefix): (Vec<usize>, bool, usize) = if !root_done {
            root_done = true;
            (vec![], true, 0)
        } else {
            let mut next = None;
            for c in 0..=bound {
                if let Some((parent, i, alt)) = queues[c].pop_front() {
                    let mut p = parent[..i].to_vec();
                    p.push(alt);
                    next = Some((p, false, c));
                    break;
                } else if stats.completed_bound.map(|b| b < c).unwrap_or(true) {
                    // every schedule with cost <= c has been executed (children only ever cost >= their parent)
                    stats.completed_bound = Some(c);
                }
            }
            match next {
                Some(n) => n,
                None => break,
            }
        };
        let _ = cost_of_prefix;
        // the first schedules of every shard are executed whatever the clock says (a slow machine must not turn a body
        // into a machinery error)
        if Instant::now() >= deadline && stats.schedules >= 3 {
            stats.capped = true;
            break;
        }
        let x = run(&prefix);
        let choices = Rc::new(choices_of(&x.trace));
        let execute_visit = !is_root || shard.0 == 0;
        if execute_visit {
            stats.schedules += 1;
            stats.decisions += x.trace.len() as u64;
            stats.max_preemptions_seen = stats.max_preemptions_seen.max(preemptions(&x.trace));
            if stats.schedules == 1 || stats.schedules % 64 == 0 {
                let y = run(&choices);
                stats.replay_checks += 1;
                let same = y.trace.len() == x.trace.len()
                    && y.trace.iter().zip(x.trace.iter()).all(|(a, b)| a.resumed == b.resumed && a.enabled == b.enabled);
                if !same || y.end != x.end {
                    stats.replay_divergences += 1;
                }
            }
            if !visit(&x, &choices) {
                stopped = true;
                break;
            }
        }
        if matches!(x.end, EndState::Diverged(_) | EndState::Stuck(_)) {
            continue;
        }
        let mut cost = 0usize;
        for (i, d) in x.trace.iter().enumerate() {
            if i >= prefix.len() {
                let c = cost + usize::from(d.preemptible);
                if c <= bound {
                    for alt in 1..d.enabled.len() {
                        if is_root {
                            let mine = top_branch_idx % shard.1 == shard.0;
                            top_branch_idx += 1;
                            if !mine {
                                continue;
                            }
                        }
                        queues[c].push_back((choices.clone(), i, alt));
                    }
                }
            }
            if d.preemptible && d.chosen != 0 {
                cost += 1;
            }
        }
    }
    if !stats.capped && !stopped {
        stats.completed_bound = Some(bound);
    }
    stats
}
