//! A `Property` over the plain `World`: program alphabets, prepared prefixes
//! and the map-equivalence oracle. Used by C01, C04, C10, C11, C18 with
//! different alphabets.

use crate::core::*;
use crate::explore::Property;
use crate::world::*;
use lsm_tree::AbstractTree;
use std::path::PathBuf;

/// Which operations are offered.
#[derive(Clone, Debug)]
pub struct Alpha {
    /// (ks, key, value) inserts
    pub ins: Vec<(u8, u8, u8)>,
    pub rem: Vec<(u8, u8)>,
    pub batches: Vec<Vec<Item>>,
    pub txs: Vec<Vec<Item>>,
    pub clear: Vec<u8>,
    pub ingest: Vec<(u8, Vec<(u8, Option<u8>)>)>,
    pub rotate: Vec<u8>,
    pub major: Vec<u8>,
    pub steps: bool,
    pub jrot: bool,
    pub reopen: bool,
    pub max_reopen: usize,
    pub create: Vec<u8>,
    pub delete: Vec<u8>,
    /// further operations offered whenever the keyspaces they touch exist (C09: explicit durability, persist)
    pub extra: Vec<Op>,
}

impl Alpha {
    pub fn empty() -> Self {
        Alpha {
            ins: vec![],
            rem: vec![],
            batches: vec![],
            txs: vec![],
            clear: vec![],
            ingest: vec![],
            rotate: vec![],
            major: vec![],
            steps: true,
            jrot: false,
            reopen: false,
            max_reopen: 2,
            create: vec![],
            delete: vec![],
            extra: vec![],
        }
    }

    /// Wide alphabet: keyspace x with all keys, keyspace y reduced.
    pub fn wide() -> Self {
        let mut a = Alpha::empty();
        for k in 0..3u8 {
            a.ins.push((0, k, 0));
            a.ins.push((0, k, 1));
            a.rem.push((0, k));
        }
        a.ins.push((0, 0, 2)); // x.a = ''
        a.ins.push((0, 2, 3)); // x.b = BIG
        a.ins.push((1, 0, 0)); // y.a = 1
        a.rem.push((1, 0));
        a.batches = vec![
            vec![Item { ks: 0, k: 0, v: Some(0) }, Item { ks: 1, k: 0, v: Some(0) }],
            vec![Item { ks: 0, k: 1, v: None }, Item { ks: 1, k: 0, v: Some(1) }],
            vec![Item { ks: 0, k: 0, v: Some(0) }, Item { ks: 0, k: 0, v: Some(1) }],
            vec![Item { ks: 0, k: 2, v: Some(1) }, Item { ks: 0, k: 2, v: None }],
        ];
        a.clear = vec![0];
        a.ingest = vec![(0, vec![(0, Some(0)), (2, None)]), (0, vec![(1, Some(1))])];
        a.rotate = vec![0, 1];
        a.major = vec![0, 1];
        a.jrot = true;
        a
    }

    /// Narrow alphabet: one key (`a`) in keyspace x — reaches deep version chains.
    pub fn narrow(big: bool) -> Self {
        let mut a = Alpha::empty();
        a.ins = vec![(0, 0, 0), (0, 0, 1)];
        if big {
            a.ins = vec![(0, 0, 3), (0, 0, 0)];
        }
        a.rem = vec![(0, 0)];
        a.batches = vec![
            vec![Item { ks: 0, k: 0, v: None }],
            vec![Item { ks: 0, k: 0, v: Some(0) }, Item { ks: 0, k: 0, v: Some(1) }],
        ];
        a.clear = vec![0];
        a.ingest = vec![(0, vec![(0, Some(1))]), (0, vec![(0, None)])];
        a.rotate = vec![0];
        a.major = vec![0];
        a
    }

    /// Two keys a, ab in keyspace x (range/prefix interplay with tombstones), no batches.
    pub fn two_keys() -> Self {
        let mut a = Alpha::empty();
        a.ins = vec![(0, 0, 0), (0, 1, 1), (0, 0, 1)];
        a.rem = vec![(0, 0), (0, 1)];
        a.clear = vec![0];
        a.rotate = vec![0];
        a.major = vec![0];
        a
    }
}

pub struct SeqProp {
    pub id: &'static str,
    pub cfg: Cfg,
    pub prefix: Vec<Op>,
    pub alpha: Alpha,
    pub probe: Probe,
    /// C04-style: only states reached through at least one `reopen` are judged
    pub judge_only_after_reopen: bool,
    pub filter: Option<fjall_filter::Assigner>,
    /// C10: journal eviction oracle (records vs persisted seqno, crash image after every deletion, quiescence)
    pub journal_oracle: bool,
    /// C12: keyspace set / existence / old-handle clauses after every step
    pub keyspace_oracle: bool,
    /// extra ops for C12 (old handles etc.)
    pub c12_ops: bool,
    /// C18: compaction filter oracle
    pub filter_oracle: Option<FilterSpec>,
    /// C11: number of reopen cycles performed by the oracle before the superseding suffix (0 = off)
    pub supersede_reopens: usize,
    /// keep what canonical-state deduplication needs (sealed memtable shadow, journal records)
    pub dedup: bool,
    /// C03: after every program a process-crash image (directory copy while the database is open) is recovered and
    /// every committed batch/transaction must be present entirely or not at all
    pub crash_atomicity_oracle: bool,
    /// the model is re-synchronised to the implementation after the prefix (prefixes containing a reopen)
    pub resync_after_prefix: bool,
}

/// A deterministic compaction filter decided from the key, and the keyspaces it is assigned to.
#[derive(Clone, Copy, Debug)]
pub struct FilterSpec {
    /// assigned to keyspace index i?
    pub assign: [bool; 3],
    /// 0 keep-all, 1 remove keys starting with `a`, 2 replace the value of `b` by `R`, 3 both
    pub kind: u8,
}

impl FilterSpec {
    /// filtered form of (key, value): None = removed
    pub fn filtered(&self, key: &[u8], value: &[u8]) -> Option<Option<Vec<u8>>> {
        let removes = self.kind == 1 || self.kind == 3;
        let replaces = self.kind == 2 || self.kind == 3;
        if removes && key.starts_with(b"a") {
            return Some(None);
        }
        if replaces && key == b"b" && value != b"R" {
            return Some(Some(b"R".to_vec()));
        }
        None
    }

    pub fn assigner(&self) -> fjall_filter::Assigner {
        use fjall::compaction::filter::{CompactionFilter, Context, Factory, ItemAccessor, Verdict};
        struct F(u8);
        impl CompactionFilter for F {
            fn filter_item(&mut self, item: ItemAccessor<'_>, _ctx: &Context) -> lsm_tree::Result<Verdict> {
                let removes = self.0 == 1 || self.0 == 3;
                let replaces = self.0 == 2 || self.0 == 3;
                let k = item.key();
                if removes && k.starts_with(b"a") {
                    return Ok(Verdict::Remove);
                }
                if replaces && &**k == b"b" {
                    return Ok(Verdict::ReplaceValue(b"R".as_slice().into()));
                }
                Ok(Verdict::Keep)
            }
        }
        struct Fac(u8);
        impl Factory for Fac {
            fn name(&self) -> &str {
                "verif"
            }
            fn make_filter(&self, _ctx: &Context) -> Box<dyn CompactionFilter> {
                Box::new(F(self.0))
            }
        }
        let spec = *self;
        std::sync::Arc::new(move |name: &str| {
            let idx = KS_NAMES.iter().position(|n| *n == name)?;
            if spec.assign[idx] {
                Some(std::sync::Arc::new(Fac(spec.kind)) as std::sync::Arc<dyn Factory>)
            } else {
                None
            }
        })
    }
}

impl SeqProp {
    pub fn new(id: &'static str, cfg: Cfg, alpha: Alpha) -> Self {
        SeqProp {
            id,
            cfg,
            prefix: vec![],
            alpha,
            probe: Probe::Lite,
            judge_only_after_reopen: false,
            filter: None,
            journal_oracle: false,
            keyspace_oracle: false,
            c12_ops: false,
            filter_oracle: None,
            supersede_reopens: 0,
            dedup: false,
            crash_atomicity_oracle: false,
            resync_after_prefix: false,
        }
    }
}

impl Property for SeqProp {
    type Op = Op;
    type World = World;
    type Stats = Witness;

    fn id(&self) -> &'static str {
        self.id
    }

    fn init(&self, dir: PathBuf) -> Result<World, Violation> {
        let mut w = World::new_with_filter(dir, self.cfg.clone(), self.filter.clone())?;
        for op in &self.prefix {
            w.apply(op).map_err(|v| Violation::new("harness", format!("prefix op {op} failed: {}", v.detail)))?;
        }
        // the prefix must itself satisfy the oracle; otherwise it is reported by the pass that explores it
        w.track_journals = self.journal_oracle || self.supersede_reopens > 0 || self.dedup;
        if w.track_journals {
            // journal bookkeeping must cover the prefix too: re-run it with tracking on
            drop(w);
            w = World::new_with_filter(fresh_dir_like(), self.cfg.clone(), self.filter.clone())?;
            w.track_journals = true;
            w.track_shadow = self.dedup;
            for op in &self.prefix {
                w.apply(op).map_err(|v| Violation::new("harness", format!("prefix op {op} failed: {}", v.detail)))?;
            }
            w.journal_deletions.clear();
        }
        if self.resync_after_prefix && w.db.is_some() {
            // the fidelity of a reopen inside the prefix is another property's business (C04): start from what is there
            let kss: Vec<u8> = w.model.keys().copied().collect();
            for ks in kss {
                if let Ok(scanned) = scan_ks(&w.ks[&ks]) {
                    w.model.insert(ks, scanned);
                }
            }
        }
        w.steps = 0;
        w.wit = Witness::default();
        Ok(w)
    }

    fn apply(&self, w: &mut World, op: &Op) -> Result<(), Violation> {
        w.apply(op)
    }

    fn step_check(&self, w: &mut World) -> Result<(), Violation> {
        if w.db.is_some() && w.dbi().journal_count() < 1 {
            return Err(Violation::new("journal_count", "journal_count() < 1"));
        }
        if let Some(spec) = self.filter_oracle {
            // per-key automaton after EVERY step, so that "filtered once observed" accumulates along the program
            self.check_filtered_keys(w, &spec)?;
        }
        if self.keyspace_oracle && w.db.is_some() {
            let want: Vec<String> = w.model.keys().map(|k| ksn(*k).to_string()).collect();
            let got = w.listed();
            if got != want {
                return Err(Violation::new("keyspace_set", format!("list_keyspace_names() = {got:?}, expected {want:?}")));
            }
            for i in 0..3u8 {
                let ex = w.dbi().keyspace_exists(ksn(i));
                if ex != w.model.contains_key(&i) {
                    return Err(Violation::new("keyspace_exists", format!("keyspace_exists({}) = {ex}", ksn(i))));
                }
            }
            if w.dbi().keyspace_count() != w.model.len() {
                return Err(Violation::new("keyspace_count", format!("keyspace_count() = {} expected {}", w.dbi().keyspace_count(), w.model.len())));
            }
        }
        if self.journal_oracle && !w.journal_deletions.is_empty() {
            let deleted = std::mem::take(&mut w.journal_deletions);
            let remaining = journal_files(&w.dir);
            let id = |n: &str| n.trim_end_matches(".jnl").parse::<u64>().unwrap_or(0);
            for j in &deleted {
                // oldest first: no surviving journal may be older than a deleted one
                if let Some(older) = remaining.iter().find(|r| id(r) < id(j)) {
                    return Err(Violation::new("journal.order", format!("{j} was deleted while the older {older} still exists")));
                }
                // every record of a live keyspace in the deleted journal must be covered by that keyspace's tables
                for (ks, seqno) in w.journal_records.get(j).cloned().unwrap_or_default() {
                    if let Some(h) = w.ks.get(&ks) {
                        let persisted = h.tree.get_highest_persisted_seqno();
                        if !persisted.is_some_and(|p| p >= seqno) {
                            return Err(Violation::new(
                                "journal.deleted_while_needed",
                                format!("{j} deleted but it holds a record of keyspace {} with seqno {seqno} > persisted {persisted:?}", ksn(ks)),
                            ));
                        }
                    }
                }
            }
            // the guarantee users rely on: a crash right after the deletion loses nothing
            let img = fresh_dir_like();
            crate::crash::copy_tree(&w.dir, &img).map_err(|e| Violation::new("harness", format!("copy: {e}")))?;
            let rec = crate::crash::recover_and_observe(&img, &w.cfg);
            let _ = std::fs::remove_dir_all(&img);
            match rec {
                crate::crash::Recovered::Ok { content, inconsistent: None } => {
                    let want = crate::crash::model_content(&w.model);
                    if content != want {
                        return Err(Violation::new(
                            "journal.crash_after_delete_loses_data",
                            format!("after deleting {deleted:?} a crash image recovers {} but the acknowledged state is {}", crate::crash::show_content(&content), crate::crash::show_content(&want)),
                        ));
                    }
                }
                crate::crash::Recovered::Ok { inconsistent: Some(d), .. } => return Err(Violation::new("journal.crash_after_delete_inconsistent", d)),
                crate::crash::Recovered::OpenErr(e) => return Err(Violation::new("journal.crash_after_delete_open_error", e)),
                crate::crash::Recovered::Panic(e) => return Err(Violation::new("journal.crash_after_delete_panic", e)),
            }
        }
        Ok(())
    }

    fn check(&self, w: &mut World) -> Result<Vec<u64>, Violation> {
        w.note_structure();
        if self.journal_oracle {
            return self.check_quiescence(w);
        }
        if let Some(spec) = self.filter_oracle {
            return self.check_filtered(w, &spec);
        }
        if self.supersede_reopens > 0 {
            return self.check_supersede(w);
        }
        if self.crash_atomicity_oracle {
            return self.check_crash_atomicity(w);
        }
        if self.judge_only_after_reopen && w.wit.reopened == 0 {
            // not this property's business; still compute digests when it agrees
            return Ok(w.check_all(self.probe).unwrap_or_default());
        }
        w.check_all(self.probe)
    }

    fn enabled(&self, w: &World, _len: usize) -> Vec<Op> {
        let a = &self.alpha;
        let mut ops = vec![];
        let exists = |ks: &u8| w.ks.contains_key(ks);
        for (ks, k, v) in &a.ins {
            if exists(ks) && w.write_enabled(*ks) {
                ops.push(Op::Ins { ks: *ks, k: *k, v: *v });
            }
        }
        for (ks, k) in &a.rem {
            if exists(ks) && w.write_enabled(*ks) {
                ops.push(Op::Rem { ks: *ks, k: *k });
            }
        }
        for b in &a.batches {
            if b.iter().all(|i| exists(&i.ks) && w.write_enabled(i.ks)) {
                ops.push(Op::Batch(b.clone()));
            }
        }
        if w.cfg.kind != DbKind::Plain {
            for b in &a.txs {
                if b.iter().all(|i| exists(&i.ks) && w.write_enabled(i.ks)) {
                    ops.push(Op::Tx(b.clone()));
                }
            }
        }
        for ks in &a.clear {
            if exists(ks) {
                ops.push(Op::Clear { ks: *ks });
            }
        }
        for x in &a.extra {
            let ok = match x {
                Op::BatchD(items, _) => items.iter().all(|i| exists(&i.ks) && w.write_enabled(i.ks)),
                Op::TxD(items, _) => w.cfg.kind != DbKind::Plain && items.iter().all(|i| exists(&i.ks) && w.write_enabled(i.ks)),
                _ => true,
            };
            if ok {
                ops.push(x.clone());
            }
        }
        for (ks, items) in &a.ingest {
            if exists(ks) && w.write_enabled(*ks) {
                ops.push(Op::Ingest { ks: *ks, items: items.clone() });
            }
        }
        for ks in &a.rotate {
            if let Some(h) = w.ks.get(ks) {
                if h.tree.active_memtable().len() > 0 && h.tree.sealed_memtable_count() < 4 {
                    ops.push(Op::Rotate { ks: *ks });
                }
            }
        }
        if a.steps {
            let mut pend = w.pending();
            pend.dedup();
            for m in pend {
                if a.jrot && m.contains("Flush") && w.dbi().verif_flush_tasks() > 0 {
                    ops.push(Op::Step { msg: m.clone(), jrot: true });
                }
                ops.push(Op::Step { msg: m, jrot: false });
            }
        }
        for ks in &a.major {
            if let Some(h) = w.ks.get(ks) {
                if h.table_count() > 0 {
                    ops.push(Op::Major { ks: *ks });
                }
            }
        }
        if a.reopen && (w.wit.reopened as usize) < a.max_reopen {
            ops.push(Op::Reopen);
        }
        for ks in &a.create {
            if !exists(ks) {
                ops.push(Op::Create { ks: *ks });
            }
        }
        for ks in &a.delete {
            if exists(ks) {
                ops.push(Op::Delete { ks: *ks });
                if self.c12_ops && w.old.len() < 2 {
                    ops.push(Op::DeleteKeep { ks: *ks });
                }
            }
        }
        if self.c12_ops {
            for (i, o) in w.old.iter().enumerate() {
                if o.is_some() {
                    ops.push(Op::OldIns { slot: i as u8 });
                    ops.push(Op::OldDrop { slot: i as u8 });
                }
            }
            for ks in &a.create {
                if exists(ks) && *ks == 0 && w.steps < 2 {
                    ops.push(Op::OpenOther { ks: *ks });
                }
            }
        }
        ops
    }

    fn absorb(&self, w: &World, s: &mut Witness) {
        s.add(&w.wit);
    }

    fn simplify(&self, op: &Op) -> Vec<Op> {
        match op {
            Op::Step { msg, jrot: true } => vec![Op::Step { msg: msg.clone(), jrot: false }],
            _ => vec![],
        }
    }

    fn canon(&self, w: &World) -> Option<u64> {
        if !self.dedup {
            return None;
        }
        use std::hash::{Hash, Hasher};
        let c = w.canon_state()?;
        let mut h = std::collections::hash_map::DefaultHasher::new();
        c.hash(&mut h);
        // counters the set of enabled continuations (and C04's "judged after a reopen") depend on
        w.wit.reopened.hash(&mut h);
        w.steps.min(2).hash(&mut h);
        Some(h.finish())
    }

    fn kind(&self, op: &Op) -> String {
        match op {
            // a compaction is a compaction, whether a worker message or the explicit major compaction triggers it
            Op::Step { msg, .. } if msg.contains("Compact") => "compact".to_string(),
            Op::Major { .. } => "compact".to_string(),
            Op::Step { msg, jrot } => {
                let m = msg.split(['(', ':']).nth(1).unwrap_or("step");
                format!("step:{}{}", m, if *jrot { "+jrot" } else { "" })
            }
            _ => op.to_string().split_whitespace().next().unwrap_or("").to_string(),
        }
    }
}

fn fresh_dir_like() -> PathBuf {
    crate::explore::fresh_dir()
}

impl SeqProp {
    /// C03: process-crash image of the current state; every logged write group is recovered all-or-nothing.
    fn check_crash_atomicity(&self, w: &mut World) -> Result<Vec<u64>, Violation> {
        if w.db.is_none() {
            return Ok(vec![]);
        }
        let img = fresh_dir_like();
        crate::crash::copy_tree(&w.dir, &img).map_err(|e| Violation::new("harness", format!("copy: {e}")))?;
        let rec = crate::crash::recover_and_observe(&img, &w.cfg);
        let _ = std::fs::remove_dir_all(&img);
        let content = match rec {
            crate::crash::Recovered::Ok { content, inconsistent: None } => content,
            crate::crash::Recovered::Ok { inconsistent: Some(d), .. } => return Err(Violation::new("crash_image.inconsistent_reads", d)),
            crate::crash::Recovered::OpenErr(e) => return Err(Violation::new("crash_image.open_error", e)),
            crate::crash::Recovered::Panic(e) => return Err(Violation::new("crash_image.recovery_panic", e)),
        };
        let empty = Map::new();
        let mut partial = 0u64;
        for (gi, g) in w.write_log.iter().enumerate() {
            if g.len() < 2 {
                continue;
            }
            // items not overwritten (or cleared away) by a later group
            let mut flags: Vec<(String, bool)> = vec![];
            for (idx, (ks, key, val, _)) in g.iter().enumerate() {
                // a later item of the same group to the same key wins inside the group
                if g.iter().skip(idx + 1).any(|(k2, key2, _, _)| k2 == ks && key2 == key) {
                    continue;
                }
                let superseded = w.write_log.iter().skip(gi + 1).any(|h| h.iter().any(|(k2, key2, _, clear)| k2 == ks && (*clear || key2 == key)));
                if superseded {
                    continue;
                }
                let got = content.get(ksn(*ks)).unwrap_or(&empty).get(key);
                match val {
                    Some(v) => flags.push((format!("{}.{}", ksn(*ks), show_key(key)), got == Some(v))),
                    None => {
                        // a tombstone is only informative if the key existed before this group
                        let existed = w.write_log.iter().take(gi).rev().find_map(|h| h.iter().rev().find(|(k2, key2, _, clear)| k2 == ks && (*clear || key2 == key)).map(|x| x.2.is_some()));
                        if existed == Some(true) {
                            flags.push((format!("{}.{}", ksn(*ks), show_key(key)), got.is_none()));
                        }
                    }
                }
            }
            if flags.iter().any(|f| f.1) && flags.iter().any(|f| !f.1) {
                return Err(Violation::new(
                    "batch.partially_recovered",
                    format!("write group #{gi} {:?}: after a process crash at the end of the program the recovered state {} contains only part of it", flags, crate::crash::show_content(&content)),
                ));
            }
            if flags.iter().all(|f| !f.1) && !flags.is_empty() {
                partial += 1;
            }
        }
        let mut d = w.check_all(self.probe)?;
        d.push(partial);
        let mut h = std::collections::hash_map::DefaultHasher::new();
        use std::hash::{Hash, Hasher};
        crate::crash::show_content(&content).hash(&mut h);
        d.push(h.finish());
        Ok(d)
    }

    /// C11: reopen, then new writes must supersede everything recovered.
    fn check_supersede(&self, w: &mut World) -> Result<Vec<u64>, Violation> {
        use fjall::Readable;
        let mut digests = vec![];
        let mut foreign = 0u64;
        for round in 0..self.supersede_reopens {
            w.apply(&Op::Reopen).map_err(|v| Violation::new("reopen", v.detail))?;
            // re-synchronise: fidelity of the reopen itself is C04's/C02's business
            let kss: Vec<u8> = w.model.keys().copied().collect();
            for ks in &kss {
                let scanned = scan_ks(&w.ks[ks]).map_err(|e| Violation::new("op_error", e))?;
                if scanned != w.model[ks] {
                    foreign += 1;
                    w.model.insert(*ks, scanned);
                }
            }
            // seqno clause
            let next = w.dbi().seqno();
            for ks in &kss {
                if let Some(hs) = w.ks[ks].tree.get_highest_seqno() {
                    if next <= hs {
                        return Err(Violation::new(
                            "seqno.not_above_keyspace",
                            format!("after reopen #{} the next seqno is {next} but keyspace {} holds seqno {hs}", round + 1, ksn(*ks)),
                        ));
                    }
                }
            }
            let on_disk = journal_files(&w.dir);
            for (j, recs) in &w.journal_records {
                if on_disk.contains(j) {
                    if let Some((ks, s)) = recs.iter().max_by_key(|r| r.1) {
                        if next <= *s {
                            return Err(Violation::new(
                                "seqno.not_above_journal",
                                format!("after reopen #{} the next seqno is {next} but {j} holds a record of {} with seqno {s}", round + 1, ksn(*ks)),
                            ));
                        }
                    }
                }
            }
            // a snapshot taken immediately after open shows exactly what the handles show
            let snap = w.dbi().snapshot();
            for ks in &kss {
                let a = observe_view(&snap, &w.ks[ks], Probe::Lite);
                let b = observe_ks(&w.ks[ks], Probe::Lite);
                if a != b {
                    return Err(Violation::new("snapshot_after_open", format!("keyspace {}: {}", ksn(*ks), a.diff(&b))));
                }
            }
            drop(snap);
            // supersede: overwrite every key, remove one; a new snapshot sees recovered data plus the new writes
            for ks in &kss {
                if !w.write_enabled(*ks) {
                    continue;
                }
                for (k, v) in [(0u8, 1u8), (1, 0)] {
                    w.apply(&Op::Ins { ks: *ks, k, v })?;
                    let want = observe_model(&w.model[ks], Probe::Lite);
                    let got = observe_ks(&w.ks[ks], Probe::Lite);
                    if got != want {
                        return Err(Violation::new("supersede.write", format!("keyspace {} after ins {}: {}", ksn(*ks), show_key(KEYS[k as usize]), got.diff(&want))));
                    }
                }
                w.apply(&Op::Rem { ks: *ks, k: 2 })?;
                let want = observe_model(&w.model[ks], Probe::Lite);
                let got = observe_ks(&w.ks[ks], Probe::Lite);
                if got != want {
                    return Err(Violation::new("supersede.remove", format!("keyspace {} after rem b: {}", ksn(*ks), got.diff(&want))));
                }
                let snap = w.dbi().snapshot();
                let sv = observe_view(&snap, &w.ks[ks], Probe::Lite);
                if sv != want {
                    return Err(Violation::new("supersede.snapshot", format!("keyspace {}: new snapshot {}", ksn(*ks), sv.diff(&want))));
                }
            }
            // a clear and a bulk ingestion after the reopen supersede recovered data as well (they install new tree
            // versions on the objects recovery built): handles and a new snapshot must both show it
            for (ks, op) in [(1u8, Op::Clear { ks: 1 }), (0u8, Op::Ingest { ks: 0, items: vec![(0, Some(0)), (2, Some(1))] })] {
                if !w.model.contains_key(&ks) || !w.write_enabled(ks) {
                    continue;
                }
                w.apply(&op)?;
                let want = observe_model(&w.model[&ks], Probe::Lite);
                let got = observe_ks(&w.ks[&ks], Probe::Lite);
                if got != want {
                    return Err(Violation::new("supersede.clear_or_ingest", format!("keyspace {} after `{op}`: {}", ksn(ks), got.diff(&want))));
                }
                let snap = w.dbi().snapshot();
                let sv = observe_view(&snap, &w.ks[&ks], Probe::Lite);
                if sv != want {
                    return Err(Violation::new("supersede.snapshot", format!("keyspace {} after `{op}`: new snapshot {}", ksn(ks), sv.diff(&want))));
                }
            }
            // keyspace-level supersede: create one, delete one
            if !w.model.contains_key(&2) {
                w.apply(&Op::Create { ks: 2 })?;
                w.apply(&Op::Ins { ks: 2, k: 0, v: 0 })?;
            } else if w.model.len() > 1 {
                w.apply(&Op::Delete { ks: 2 })?;
            }
        }
        w.apply(&Op::Reopen).map_err(|v| Violation::new("reopen", v.detail))?;
        let d = w.check_all(Probe::Lite).map_err(|v| Violation::new("supersede.after_final_reopen", v.detail))?;
        let want: Vec<String> = w.model.keys().map(|k| ksn(*k).to_string()).collect();
        if w.listed() != want {
            return Err(Violation::new("supersede.keyspace_set", format!("{:?} expected {want:?}", w.listed())));
        }
        digests.extend(d);
        digests.push(foreign);
        Ok(digests)
    }

    fn check_filtered_keys(&self, w: &mut World, spec: &FilterSpec) -> Result<(), Violation> {
        self.check_filtered_impl(w, spec, false).map(|_| ())
    }

    /// C18: every key is in its original or (if assigned) its filtered form, filtered stays filtered.
    fn check_filtered(&self, w: &mut World, spec: &FilterSpec) -> Result<Vec<u64>, Violation> {
        self.check_filtered_impl(w, spec, true)
    }

    fn check_filtered_impl(&self, w: &mut World, spec: &FilterSpec, full: bool) -> Result<Vec<u64>, Violation> {
        let mut digests = vec![];
        if w.db.is_none() {
            return Ok(digests);
        }
        let kss: Vec<u8> = w.model.keys().copied().collect();
        for ks in kss {
            let h = w.ks[&ks].clone();
            let m = w.model[&ks].clone();
            let mut effective = m.clone();
            for (k, v) in &m {
                let got = h.get(k).map_err(|e| Violation::new("op_error", format!("{e:?}")))?.map(|x| x.to_vec());
                let filt = if spec.assign[ks as usize] { spec.filtered(k, v) } else { None };
                let was_filtered = w.filtered_seen.contains(&(ks, k.clone()));
                if got.as_ref() == Some(v) {
                    if was_filtered {
                        return Err(Violation::new(
                            "filter.unfiltered_again",
                            format!("keyspace {} key {}: observed filtered earlier, now back to the original {}", ksn(ks), show_key(k), show_val(v)),
                        ));
                    }
                    if filt.is_some() && w.must_filtered.contains(&(ks, k.clone())) {
                        return Err(Violation::new(
                            "filter.not_in_effect",
                            format!("keyspace {} key {}: its newest version went through a major compaction with the filter assigned, but it still shows the original {}", ksn(ks), show_key(k), show_val(v)),
                        ));
                    }
                } else if let Some(f) = filt {
                    if got == f {
                        w.filtered_seen.insert((ks, k.clone()));
                        match f {
                            Some(nv) => {
                                effective.insert(k.clone(), nv);
                            }
                            None => {
                                effective.remove(k);
                            }
                        }
                    } else {
                        return Err(Violation::new(
                            "filter.neither_original_nor_filtered",
                            format!("keyspace {} key {}: got {:?}, original {}, filtered {:?}", ksn(ks), show_key(k), got.as_ref().map(|g| show_val(g)), show_val(v), f.as_ref().map(|g| show_val(g))),
                        ));
                    }
                } else {
                    return Err(Violation::new(
                        if spec.assign[ks as usize] { "filter.kept_item_altered" } else { "filter.unassigned_keyspace_altered" },
                        format!("keyspace {} key {}: got {:?}, expected {}", ksn(ks), show_key(k), got.as_ref().map(|g| show_val(g)), show_val(v)),
                    ));
                }
            }
            if !full {
                continue;
            }
            let got = observe_ks(&h, self.probe);
            let want = observe_model(&effective, self.probe);
            if got != want {
                return Err(Violation::new("observe!=model", format!("keyspace {}: {} (effective model {})", ksn(ks), got.diff(&want), show_map(&effective))));
            }
            digests.push(got.digest());
        }
        Ok(digests)
    }

    /// C10: content equals the model; then flush every keyspace and drain the queue: exactly one journal remains.
    fn check_quiescence(&self, w: &mut World) -> Result<Vec<u64>, Violation> {
        let mut digests = w.check_all(self.probe)?;
        let jbefore = journal_files(&w.dir).len();
        let kss: Vec<u8> = w.ks.keys().copied().collect();
        // "once all keyspaces have been flushed": make sure every live keyspace has something to flush, so that a
        // flush (and with it journal maintenance) really happens after the last state change
        for ks in &kss {
            if w.write_enabled(*ks) {
                w.apply(&Op::Ins { ks: *ks, k: 2, v: 1 })?;
            }
        }
        let mut guard = 0;
        loop {
            let mut progressed = false;
            for ks in &kss {
                let h = &w.ks[ks];
                if h.tree.active_memtable().len() > 0 && h.tree.sealed_memtable_count() < 4 {
                    w.apply(&Op::Rotate { ks: *ks })?;
                    self.step_check(w)?;
                    progressed = true;
                }
            }
            let pend = w.pending();
            if let Some(m) = pend.first() {
                w.apply(&Op::Step { msg: m.clone(), jrot: false })?;
                self.step_check(w)?;
                progressed = true;
            }
            guard += 1;
            if !progressed || guard > 200 {
                break;
            }
        }
        let on_disk = journal_files(&w.dir);
        let count = w.dbi().journal_count();
        if count != 1 || on_disk.len() != 1 {
            return Err(Violation::new(
                "journal.quiescence",
                format!("after flushing every keyspace and draining the queue: journal_count()={count}, files={on_disk:?} (had {jbefore} before)"),
            ));
        }
        digests.extend(w.check_all(self.probe)?);
        digests.push(jbefore as u64);
        Ok(digests)
    }
}

/// Prepared prefixes (recorded programs reaching states that blind search finds late).
pub fn prefix(name: &str) -> Vec<Op> {
    let p = |s: &[&str]| -> Vec<Op> { s.iter().map(|x| Op::parse(x).expect("prefix op")).collect() };
    match name {
        "" | "empty" => vec![],
        // x.a=1 compacted into the last level
        "a_in_last_level" => p(&["ins x.a=1", "rotate x", "step WorkerMessage:Flush", "major x"]),
        // x.a=1 in last level, x.a=2 in L0, x.ab in memtable
        "l6_l0_mem" => p(&[
            "ins x.a=1",
            "rotate x",
            "step WorkerMessage:Flush",
            "major x",
            "ins x.a=2",
            "ins x.b=1",
            "rotate x",
            "step WorkerMessage:Flush",
            "ins x.ab=1",
        ]),
        // tombstone for a in L0 above a value in the last level
        "tomb_over_value" => p(&[
            "ins x.a=1",
            "ins x.ab=2",
            "rotate x",
            "step WorkerMessage:Flush",
            "major x",
            "rem x.a",
            "rotate x",
            "step WorkerMessage:Flush",
        ]),
        // BIG value separated into a blob file and overwritten (needs blob cfg)
        "blob_overwritten" => p(&[
            "ins x.b=BIG",
            "rotate x",
            "step WorkerMessage:Flush",
            "ins x.b=1",
            "rotate x",
            "step WorkerMessage:Flush",
        ]),
        // two sealed journals, keyspace y lagging (unflushed data in the first journal)
        "two_sealed_journals" => p(&[
            "ins y.a=1",
            "ins x.a=1",
            "rotate x",
            "step+jrot WorkerMessage:Flush",
            "ins x.a=2",
            "rotate x",
            "step+jrot WorkerMessage:Flush",
        ]),
        // x and y each hold a, b in an L0 table (C18: next compaction applies the filter)
        "both_flushed" => p(&[
            "ins x.a=1",
            "ins x.b=1",
            "ins y.a=1",
            "ins y.b=2",
            "rotate x",
            "rotate y",
            "step WorkerMessage:Flush",
            "step WorkerMessage:Flush",
        ]),
        // the meta keyspace holds the highest seqnos: keyspaces created and deleted last, little user data
        "meta_highest" => p(&["ins x.a=1", "create z", "delete z", "create z", "delete y"]),
        // two sealed journals pinned by the lagging y, plus z with unflushed data (C12: deleting x must not free them)
        "two_sealed_journals_z" => p(&[
            "ins y.a=1",
            "ins x.a=1",
            "rotate x",
            "step+jrot WorkerMessage:Flush",
            "ins x.a=2",
            "rotate x",
            "step+jrot WorkerMessage:Flush",
            "create z",
            "ins z.a=1",
        ]),
        // a sealed journal (kept back by the lagging y) whose last record of x equals x's highest flushed seqno;
        // x holds a (removed by the C18 filter) and b (replaced), b written last
        "sealed_journal_x_flushed" => p(&["ins y.a=1", "ins x.a=1", "ins x.b=1", "rotate x", "step+jrot WorkerMessage:Flush"]),
        // a sealed journal in which x has a flushed record (b, its highest persisted seqno) AND a later unflushed one
        // (a): recovery must replay exactly the part that is not in x's tables
        "sealed_journal_x_half_flushed" => p(&["ins x.b=1", "rotate x", "step WorkerMessage:Flush", "ins x.a=1", "ins y.a=1", "rotate y", "step+jrot WorkerMessage:Flush"]),
        // x has an unflushed item and no tables at all, y is sealed and about to be flushed
        "x_unflushed_y_rotated" => p(&["ins x.b=1", "ins y.a=1", "rotate y"]),
        // a sealed journal holding every record kind, ending in two clear markers (batches without items)
        // (kept back by the lagging y; z is the keyspace whose flush seals it)
        "sealed_journal_all_kinds" => p(&["ins y.a=1", "create z", "ins z.a=1", "ins x.a=1", "batch [x.ab=2 y.b=1]", "rem x.a", "clear x", "clear x", "rotate z", "step+jrot WorkerMessage:Flush"]),
        // a recovered database: data in a table and in the (replayed) memtable; everything that follows runs on the
        // objects `Database::recover` builds, not on the ones `create_new` builds
        "reopened_with_data" => p(&["ins x.a=1", "ins x.b=1", "rotate x", "step WorkerMessage:Flush", "ins x.ab=2", "ins y.a=1", "reopen"]),
        // journal ids with different digit counts side by side: 9.jnl sealed (kept back by y), 10.jnl active
        "journals_9_and_10" => {
            let mut v = vec![];
            for _ in 0..9 {
                v.extend(p(&["ins x.a=1", "rotate x", "step+jrot WorkerMessage:Flush"]));
            }
            v.extend(p(&["ins y.a=1", "ins x.a=2", "rotate x", "step+jrot WorkerMessage:Flush", "ins y.a=2", "rem x.a"]));
            v
        }
        // a cross-keyspace batch whose first keyspace has been flushed, the other not
        "batch_half_flushed" => p(&["ins y.b=1", "batch [x.a=2 y.a=1]", "rotate x", "step WorkerMessage:Flush"]),
        other => panic!("unknown prefix {other}"),
    }
}
