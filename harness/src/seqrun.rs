//! Runs a list of E1 passes (SeqProp instances) and folds them into an Outcome.

use crate::explore::*;
use crate::report::*;
use crate::seqprop::*;
use crate::world::*;
use serde_json::json;
use std::time::{Duration, Instant};

pub struct Pass {
    pub name: String,
    pub prop: SeqProp,
    pub depth: usize,
    /// depth that must complete, else the run is a machinery failure (cap hit before minimum bound)
    pub min_depth: usize,
    pub budget: Duration,
    /// further levels beyond `depth` in which only one representative per canonical state is extended (0 = none)
    pub dedup_extra: usize,
    /// time for those further levels (on top of `budget`)
    pub dedup_budget: Duration,
}

/// Thorough tier (or FJV_DEDUP_EXTRA=n): after its exhaustive depth every pass continues for up to `n` further levels,
/// extending only one representative program per canonical state (canon.rs), for a separate time budget.
pub fn with_dedup(mut v: Vec<Pass>, tier: &str) -> Vec<Pass> {
    let env: Option<usize> = std::env::var("FJV_DEDUP_EXTRA").ok().and_then(|s| s.parse().ok());
    let extra = env.unwrap_or(if tier == "thorough" { 2 } else { 0 });
    if extra == 0 {
        return v;
    }
    let secs: f64 = std::env::var("FJV_DEDUP_SECS").ok().and_then(|s| s.parse().ok()).unwrap_or(if tier == "thorough" { 60.0 } else { 5.0 });
    for p in v.iter_mut() {
        if !p.prop.cfg.blob {
            p.prop.dedup = true;
            p.dedup_extra = extra;
            p.dedup_budget = Duration::from_secs_f64(secs);
        }
    }
    v
}

pub fn threads() -> usize {
    std::env::var("FJV_THREADS")
        .ok()
        .and_then(|s| s.parse().ok())
        .unwrap_or_else(|| std::thread::available_parallelism().map(|n| n.get()).unwrap_or(4))
        .min(16)
}

pub fn merge_wit(a: &mut Witness, b: Witness) {
    a.add(&b);
}

pub fn run_passes(o: &mut Outcome, passes: &[Pass]) -> Witness {
    let mut total_wit = Witness::default();
    let mut pass_records = vec![];
    let mut all_outcomes = std::collections::HashSet::new();
    let mut carry = Duration::ZERO;
    for pass in passes {
        let budget = pass.budget + carry;
        let t0 = Instant::now();
        // under heavy machine load the budget may cut a level short: the hard minimum is two levels below the request,
        // and it is executed whatever the clock says
        let hard_min = pass.min_depth.min(pass.depth.saturating_sub(2)).max(1);
        let rep = if pass.dedup_extra > 0 && pass.prop.dedup {
            explore_dedup(&pass.prop, pass.depth, pass.depth + pass.dedup_extra, t0 + budget, pass.dedup_budget, threads(), &merge_wit, hard_min)
        } else {
            explore_min(&pass.prop, pass.depth, hard_min, t0 + budget, threads(), &merge_wit)
        };
        let ext = rep.completed_depth >= pass.depth && rep.exhaustive_wall > Duration::ZERO;
        carry = budget.saturating_sub(if ext { rep.exhaustive_wall } else { t0.elapsed() });
        // the exhaustive part counts as capped only if the requested depth did not complete
        let capped_core = rep.capped && rep.completed_depth < pass.depth;
        o.cov_add("states", rep.programs);
        o.cov_add("transitions", rep.transitions.max(1));
        o.cov_add("traces_validated_against_impl", rep.programs);
        all_outcomes.extend(rep.outcomes.iter().copied());
        total_wit.add(&rep.stats);
        for s in rep.samples.iter().take(2) {
            o.sample(json!({"pass": pass.name, "cfg": pass.prop.cfg.name(), "program": s}));
        }
        let raw = rep.violations.len();
        pass_records.push(json!({
            "pass": pass.name,
            "cfg": pass.prop.cfg.name(),
            "prefix": prog_str(&pass.prop.prefix),
            "depth_requested": pass.depth,
            "depth_completed_exhaustively": rep.completed_depth.min(pass.depth),
            "representative_depth_requested": pass.depth + if pass.prop.dedup { pass.dedup_extra } else { 0 },
            "depth_completed_one_representative_per_canonical_state": rep.completed_depth,
            "programs_not_extended_because_state_already_expanded_per_depth": rep.merged_per_level,
            "canonical_states": rep.canon_states,
            "capped_by_time": capped_core,
            "representative_extension_capped_by_time": rep.capped && !capped_core,
            "programs_per_depth": rep.per_level,
            "programs": rep.programs,
            "distinct_outcomes": rep.outcomes.len(),
            "raw_violating_programs": raw,
            "wall_s": rep.wall.as_secs_f64(),
            "witnesses": rep.stats.to_json(),
        }));
        if rep.completed_depth < hard_min {
            o.machinery_errors.push(format!(
                "pass {} completed only depth {} < minimum {}",
                pass.name, rep.completed_depth, pass.min_depth
            ));
        }
        if raw > 0 {
            let tri = triage(&pass.prop, rep.violations);
            for (sig, f) in tri {
                // double replay: the minimal program must fail twice with the same clause
                let mut same = 0;
                for _ in 0..2 {
                    if let RunResult::Bad(v) = run_program(&pass.prop, &f.program, 0, None) {
                        if v.clause == f.v.clause {
                            same += 1;
                        }
                    }
                }
                if same != 2 {
                    o.machinery_errors.push(format!(
                        "replay divergence for [{}] ({}): {same}/2 replays reproduced",
                        prog_str(&f.program),
                        f.v.clause
                    ));
                    continue;
                }
                let mut program: Vec<String> = pass.prop.prefix.iter().map(|x| x.to_string()).collect();
                let plen = program.len();
                program.extend(f.program.iter().map(|x| x.to_string()));
                o.findings.push(Finding {
                    sig,
                    engine: "E1-seqcheck".into(),
                    variant: json!({"pass": pass.name, "cfg": pass.prop.cfg.name(), "prefix_len": plen}),
                    program,
                    clause: f.v.clause.clone(),
                    detail: f.v.detail.clone(),
                });
            }
        }
    }
    o.cov("passes", json!(pass_records));
    o.cov("distinct_outcomes", json!(all_outcomes.len()));
    o.cov("witnesses", total_wit.to_json());
    let all_complete = pass_records
        .iter()
        .all(|p| p["capped_by_time"] == json!(false));
    o.cov("exhaustive", json!(all_complete));
    if all_outcomes.len() <= 1 {
        o.machinery_errors.push("vacuous: at most one distinct outcome observed".into());
    }
    total_wit
}

/// Replays an E1 finding: the program (prefix included) is executed on a fresh world of the pass's property.
pub fn replay_with(pass: &Pass, program: &[String], prefix_len: usize) -> i32 {
    let ops: Result<Vec<Op>, String> = program.iter().skip(prefix_len).map(|s| Op::parse(s)).collect();
    let ops = match ops {
        Ok(o) => o,
        Err(e) => {
            eprintln!("cannot parse replay program: {e}");
            return 2;
        }
    };
    if std::env::var("FJV_DEBUG_REPLAY").is_ok() {
        // step-by-step dump: content of every keyspace and LSM shape after each operation
        use lsm_tree::AbstractTree;
        if let Ok(mut w) = pass.prop.init(crate::explore::fresh_dir()) {
            for op in &ops {
                let r = pass.prop.apply(&mut w, op);
                let mut desc = vec![];
                for (i, h) in &w.ks {
                    let content = crate::core::scan_ks(h).map(|m| crate::core::show_map(&m)).unwrap_or_else(|e| e);
                    desc.push(format!("{}: scan={} get(b)={:?} persisted={:?} highest={:?} tables={} sealed={} active={}", ksn(*i), content, h.get("b").ok().flatten().map(|v| String::from_utf8_lossy(&v).into_owned()), h.tree.get_highest_persisted_seqno(), h.tree.get_highest_seqno(), h.tree.table_count(), h.tree.sealed_memtable_count(), h.tree.active_memtable().len()));
                }
                println!("  {op} -> {:?}\n      {}\n      journals={:?} seqno={}", r.map_err(|v| v.detail), desc.join("\n      "), journal_files(&w.dir), w.db.as_ref().map(|d| d.inner().seqno()).unwrap_or(0));
            }
        }
    }
    match run_program(&pass.prop, &ops, 0, None) {
        RunResult::Ok { .. } => {
            println!("replay: program satisfied the oracle (no violation)");
            0
        }
        RunResult::Bad(v) => {
            println!("replay: VIOLATION clause={} :: {}", v.clause, v.detail);
            1
        }
    }
}
