//! E2 orchestration: runs the crash driver (a child process of this binary) under the LD_PRELOAD shim,
//! parses its log / ack file, derives torn-write images, checks images against the prefix oracle.

use crate::crash::*;
use crate::explore::fresh_dir;
use crate::report::verif_root;
use crate::world::*;
use std::path::{Path, PathBuf};
use std::process::Command;

#[derive(Clone, Debug)]
pub struct Event {
    pub n: usize,
    pub call: String,
    pub path: String,
    pub off: u64,
    pub len: u64,
    /// crash image representing "before call n"
    pub img: i64,
    pub pl: i64,
    pub jop: usize,
}

pub struct ShimRun {
    pub work: PathBuf,
    pub root: PathBuf,
    pub imgdir: PathBuf,
    pub events: Vec<Event>,
    /// (op index, shim counter when the op had returned, ok)
    pub acks: Vec<(usize, usize, bool)>,
    pub init_counter: usize,
    /// counter when the database had been dropped (None if the driver did not get there)
    pub dropped_counter: Option<usize>,
    pub exit_code: Option<i32>,
    pub stdout: String,
}

impl Drop for ShimRun {
    fn drop(&mut self) {
        let _ = std::fs::remove_dir_all(&self.work);
    }
}

pub fn shim_path() -> PathBuf {
    verif_root().join("build/libfjallfs.so")
}

pub enum Mode {
    Image { powerloss: bool },
    Crash(usize),
    Fail { jop: usize, errno: i32, short: Option<usize> },
    Log,
}

/// Runs `fjv drv` under the shim.
pub fn run_driver(cfg: &Cfg, ops: &[Op], mode: Mode, extra: &[(&str, String)]) -> ShimRun {
    let work = fresh_dir();
    std::fs::create_dir_all(&work).expect("work dir");
    let root = work.join("db");
    let imgdir = work.join("img");
    std::fs::create_dir_all(&imgdir).expect("img dir");
    let log = work.join("log");
    let ack = work.join("ack");
    let exe = std::env::current_exe().expect("exe");
    let mut cmd = Command::new(exe);
    cmd.arg("drv").arg(&root).arg(&ack).arg(cfg.to_spec());
    for op in ops {
        cmd.arg(op.to_string());
    }
    cmd.env("LD_PRELOAD", shim_path())
        .env("FJALLFS_ROOT", &root)
        .env("FJALLFS_IMG", &imgdir)
        .env("FJALLFS_LOG", &log);
    match &mode {
        Mode::Image { powerloss } => {
            cmd.env("FJALLFS_MODE", "image");
            cmd.env("FJALLFS_POWERLOSS", if *powerloss { "1" } else { "0" });
        }
        Mode::Crash(n) => {
            cmd.env("FJALLFS_MODE", format!("crash={n}"));
        }
        Mode::Fail { jop, errno, short } => {
            cmd.env(
                "FJALLFS_MODE",
                match short {
                    Some(k) => format!("fail={jop}:{errno}:{k}"),
                    None => format!("fail={jop}:{errno}"),
                },
            );
        }
        Mode::Log => {
            cmd.env("FJALLFS_MODE", "log");
        }
    }
    for (k, v) in extra {
        cmd.env(k, v);
    }
    let out = cmd.output().expect("spawn driver");
    let stdout = String::from_utf8_lossy(&out.stdout).into_owned() + &String::from_utf8_lossy(&out.stderr);
    let mut events = vec![];
    if let Ok(s) = std::fs::read_to_string(&log) {
        for line in s.lines() {
            let f: Vec<&str> = line.split_whitespace().collect();
            if f.len() < 8 {
                continue;
            }
            let kv = |s: &str| s.split_once('=').map(|x| x.1.parse::<i64>().unwrap_or(-1)).unwrap_or(-1);
            events.push(Event {
                n: f[0].parse().unwrap_or(0),
                call: f[1].to_string(),
                path: f[2].to_string(),
                off: f[3].parse().unwrap_or(0),
                len: f[4].parse().unwrap_or(0),
                img: kv(f[5]),
                pl: kv(f[6]),
                jop: kv(f[7]).max(0) as usize,
            });
        }
    }
    let mut acks = vec![];
    let mut init_counter = 0;
    let mut dropped_counter = None;
    if let Ok(s) = std::fs::read_to_string(&ack) {
        for line in s.lines() {
            let f: Vec<&str> = line.split_whitespace().collect();
            match f.as_slice() {
                ["init", c] => init_counter = c.parse().unwrap_or(0),
                ["ack", i, c, r, ..] => acks.push((i.parse().unwrap_or(0), c.parse().unwrap_or(0), *r == "ok")),
                ["dropped", c] => dropped_counter = c.parse().ok(),
                _ => {}
            }
        }
    }
    ShimRun { work, root, imgdir, events, acks, init_counter, dropped_counter, exit_code: out.status.code(), stdout }
}

impl ShimRun {
    /// number of operations acknowledged before call `n` was issued
    pub fn acked_before(&self, n: usize) -> usize {
        self.acks.iter().filter(|(_, c, _)| *c <= n).count()
    }
    pub fn image_dir(&self, img: i64) -> PathBuf {
        self.imgdir.join(img.to_string())
    }
    pub fn pl_dir(&self, pl: i64) -> PathBuf {
        self.imgdir.join(format!("{pl}.pl"))
    }
}

/// Copy of image `img` with the first `k` bytes of the write event `ev` applied (data taken from the image
/// in which the write has completed).
pub fn torn_image(run: &ShimRun, ev: &Event, after_img: i64, k: u64, dst: &Path) -> std::io::Result<()> {
    copy_tree(&run.image_dir(ev.img), dst)?;
    let rel = ev.path.trim_start_matches('/');
    let src = run.image_dir(after_img).join(rel);
    let mut data = vec![0u8; k as usize];
    {
        use std::io::{Read, Seek, SeekFrom};
        let mut f = std::fs::File::open(&src)?;
        f.seek(SeekFrom::Start(ev.off))?;
        f.read_exact(&mut data)?;
    }
    let target = dst.join(rel);
    // the write may extend the file
    let cur = std::fs::metadata(&target).map(|m| m.len()).unwrap_or(0);
    if cur < ev.off + k {
        let f = std::fs::OpenOptions::new().write(true).create(true).open(&target)?;
        f.set_len(ev.off + k)?;
    }
    write_at(&target, ev.off, &data)
}

/// Hash for comparing trees across *different runs*: lsm-tree files embed creation timestamps, so only
/// names and sizes of all files plus the full content of journals and the version marker are compared.
pub fn tree_hash_across_runs(dir: &Path) -> u64 {
    tree_hash_impl(dir, false)
}

/// Stable hash of a directory tree (names, sizes, contents).
pub fn tree_hash(dir: &Path) -> u64 {
    tree_hash_impl(dir, true)
}

fn tree_hash_impl(dir: &Path, all_content: bool) -> u64 {
    fn fnv(h: &mut u64, bytes: &[u8]) {
        for b in bytes {
            *h ^= u64::from(*b);
            *h = h.wrapping_mul(0x100000001b3);
        }
    }
    fn walk(p: &Path, rel: &str, h: &mut u64, all_content: bool) {
        let mut entries: Vec<_> = std::fs::read_dir(p).map(|rd| rd.filter_map(|e| e.ok()).collect()).unwrap_or_default();
        entries.sort_by_key(|e: &std::fs::DirEntry| e.file_name());
        for e in entries {
            let name = format!("{rel}/{}", e.file_name().to_string_lossy());
            // tempfile names are random: normalise
            let norm = if name.contains(".tmp") { "<tmp>".to_string() } else { name.clone() };
            let ft = match e.file_type() {
                Ok(t) => t,
                Err(_) => continue,
            };
            if ft.is_dir() {
                fnv(h, norm.as_bytes());
                fnv(h, b"/");
                walk(&e.path(), &name, h, all_content);
            } else if ft.is_file() {
                fnv(h, norm.as_bytes());
                let len = e.metadata().map(|m| m.len()).unwrap_or(0);
                fnv(h, &len.to_le_bytes());
                if all_content || name.ends_with(".jnl") || name.ends_with("/version") {
                    let used = used_len(&e.path()).unwrap_or(0);
                    if let Ok(b) = read_prefix(&e.path(), used) {
                        fnv(h, &b);
                    }
                }
            }
        }
    }
    let mut h = 0xcbf29ce484222325u64;
    walk(dir, "", &mut h, all_content);
    h
}

// ---------------------------------------------------------------- driver side

type CounterFn = unsafe extern "C" fn() -> libc::c_long;
type VoidFn = unsafe extern "C" fn();

fn shim_counter() -> usize {
    unsafe {
        let sym = libc::dlsym(libc::RTLD_DEFAULT, b"fjallfs_counter\0".as_ptr().cast());
        if sym.is_null() {
            return 0;
        }
        let f: CounterFn = std::mem::transmute(sym);
        f() as usize
    }
}

fn shim_final_image() {
    unsafe {
        let sym = libc::dlsym(libc::RTLD_DEFAULT, b"fjallfs_final_image\0".as_ptr().cast());
        if !sym.is_null() {
            let f: VoidFn = std::mem::transmute(sym);
            f();
        }
    }
}

/// `fjv drv <root> <ackfile> <cfgspec> <op>...` — executes the program; one ack line per returned operation.
pub fn driver_main(args: &[String]) -> i32 {
    use std::io::Write;
    if args.len() < 3 {
        eprintln!("drv: root ack cfg ops...");
        return 2;
    }
    let root = PathBuf::from(&args[0]);
    let mut ack = std::fs::File::create(&args[1]).expect("ack file");
    let cfg = Cfg::from_spec(&args[2]).expect("cfg spec");
    let ops: Vec<Op> = args[3..].iter().map(|s| Op::parse(s).expect("op")).collect();
    let stop_on_err = std::env::var("FJV_DRV_CONTINUE_ON_ERR").is_err();
    let mut w = match World::new(root, cfg) {
        Ok(w) => w,
        Err(v) => {
            let _ = writeln!(ack, "initfail {}", v.detail.replace('\n', " "));
            return 3;
        }
    };
    w.keep_dir = true;
    let _ = writeln!(ack, "init {}", shim_counter());
    for (i, op) in ops.iter().enumerate() {
        let r = std::panic::catch_unwind(std::panic::AssertUnwindSafe(|| w.apply(op)));
        match r {
            Ok(Ok(())) => {
                let _ = writeln!(ack, "ack {i} {} ok", shim_counter());
            }
            Ok(Err(v)) => {
                let _ = writeln!(ack, "ack {i} {} err {}", shim_counter(), v.detail.replace('\n', " "));
                if stop_on_err {
                    break;
                }
            }
            Err(_) => {
                let _ = writeln!(ack, "ack {i} {} panic", shim_counter());
                break;
            }
        }
    }
    shim_final_image();
    w.close();
    let _ = writeln!(ack, "dropped {}", shim_counter());
    shim_final_image();
    drop(w);
    0
}
