//! The `World`: one real fjall database (no worker threads; background work
//! is stepped explicitly) next to its reference model, plus the operation
//! alphabet and its interpreter.

use crate::core::*;
use fjall::{
    Database, Keyspace, KeyspaceCreateOptions, KvSeparationOptions, OptimisticTxDatabase,
    PersistMode, SingleWriterTxDatabase,
};
use lsm_tree::AbstractTree;
use std::cell::Cell;
use std::collections::BTreeMap;
use std::path::{Path, PathBuf};
use std::sync::Arc;

thread_local! {
    /// Per-thread journal position override (hook 3).
    pub static FAKE_JOURNAL_POS: Cell<Option<u64>> = const { Cell::new(None) };
}

#[derive(Clone, Copy, Debug, PartialEq, Eq, Hash)]
pub enum DbKind {
    Plain,
    SingleWriter,
    Optimistic,
}

#[derive(Clone, Copy, Debug, PartialEq, Eq, Hash)]
pub enum Strat {
    Leveled,
    /// l0_threshold = 2: two flushes reach L1
    LeveledL2,
    /// FIFO with a limit that never evicts
    Fifo,
}

#[derive(Clone, Debug, PartialEq, Eq, Hash)]
pub struct Cfg {
    pub kind: DbKind,
    pub blob: bool,
    pub tiny: bool,
    pub strat: Strat,
    pub lz4: bool,
    pub manual_persist: bool,
    /// keyspaces created at start (names x, y, z)
    pub nks: usize,
    /// values carry their provenance `<keyspace><incarnation>#<n>` (C12)
    pub prov: bool,
    /// `max_journaling_size` at its minimum (64 MiB = one preallocated journal): every journal rotation finds the
    /// journals "too big" and asks the keyspaces holding back the oldest one to rotate their memtables
    pub maxj: bool,
}

impl Cfg {
    pub fn default2() -> Self {
        Cfg {
            kind: DbKind::Plain,
            blob: false,
            tiny: false,
            strat: Strat::Leveled,
            lz4: true,
            manual_persist: false,
            nks: 2,
            prov: false,
            maxj: false,
        }
    }
    pub fn name(&self) -> String {
        format!(
            "{:?}/{}{}{}{:?}/{}{}/ks{}",
            self.kind,
            if self.maxj { "small-journal-limit," } else { "" },
            if self.blob { "blob," } else { "" },
            if self.tiny { "tiny," } else { "" },
            self.strat,
            if self.lz4 { "lz4" } else { "nocomp" },
            if self.manual_persist { ",manual" } else { "" },
            self.nks
        )
    }
    pub fn to_spec(&self) -> String {
        format!(
            "{:?},{},{},{:?},{},{},{},{},{}",
            self.kind, self.blob as u8, self.tiny as u8, self.strat, self.lz4 as u8, self.manual_persist as u8, self.nks, self.prov as u8, self.maxj as u8
        )
    }
    pub fn from_spec(s: &str) -> Option<Cfg> {
        let f: Vec<&str> = s.split(',').collect();
        if f.len() < 7 || f.len() > 9 {
            return None;
        }
        Some(Cfg {
            kind: match f[0] {
                "Plain" => DbKind::Plain,
                "SingleWriter" => DbKind::SingleWriter,
                "Optimistic" => DbKind::Optimistic,
                _ => return None,
            },
            blob: f[1] == "1",
            tiny: f[2] == "1",
            strat: match f[3] {
                "Leveled" => Strat::Leveled,
                "LeveledL2" => Strat::LeveledL2,
                "Fifo" => Strat::Fifo,
                _ => return None,
            },
            lz4: f[4] == "1",
            manual_persist: f[5] == "1",
            nks: f[6].parse().ok()?,
            prov: f.get(7).map(|x| *x == "1").unwrap_or(false),
            maxj: f.get(8).map(|x| *x == "1").unwrap_or(false),
        })
    }
    pub fn ks_opts(&self) -> KeyspaceCreateOptions {
        let mut o = KeyspaceCreateOptions::default();
        if self.blob {
            o = o.with_kv_separation(Some(
                KvSeparationOptions::default()
                    .separation_threshold(1000)
                    .staleness_threshold(0.01)
                    .age_cutoff(1.0),
            ));
        }
        if self.tiny {
            o = o.max_memtable_size(0);
        }
        o = match self.strat {
            Strat::Leveled => o,
            Strat::LeveledL2 => o.compaction_strategy(Arc::new(
                fjall::compaction::Leveled::default().with_l0_threshold(2),
            )),
            Strat::Fifo => o.compaction_strategy(Arc::new(fjall::compaction::Fifo::new(
                u64::MAX / 4,
                None,
            ))),
        };
        if self.manual_persist {
            o = o.manual_journal_persist(true);
        }
        o
    }
}

/// One item of a batch / transaction / ingestion: keyspace index, key index, Some(value idx) or None = remove
#[derive(Clone, Debug, PartialEq, Eq, Hash, PartialOrd, Ord)]
pub struct Item {
    pub ks: u8,
    pub k: u8,
    pub v: Option<u8>,
}

#[derive(Clone, Debug, PartialEq, Eq, Hash, PartialOrd, Ord)]
pub enum Op {
    Ins { ks: u8, k: u8, v: u8 },
    Rem { ks: u8, k: u8 },
    Batch(Vec<Item>),
    /// batch with explicit durability: 0 = None, 1 = Buffer, 2 = SyncData, 3 = SyncAll
    BatchD(Vec<Item>, u8),
    /// write transaction with explicit durability
    TxD(Vec<Item>, u8),
    /// committed write transaction (single-writer or optimistic DB kinds)
    Tx(Vec<Item>),
    Clear { ks: u8 },
    Ingest { ks: u8, items: Vec<(u8, Option<u8>)> },
    Rotate { ks: u8 },
    /// run the queued worker message with this debug name; `jrot`: pretend the journal is > 64 MB for this step
    Step { msg: String, jrot: bool },
    Major { ks: u8 },
    Reopen,
    Create { ks: u8 },
    Delete { ks: u8 },
    Persist { mode: u8 },
    /// delete the keyspace but keep a clone of the handle (slot in `World.old`)
    DeleteKeep { ks: u8 },
    /// insert through an old handle of a deleted keyspace: must be refused with KeyspaceDeleted
    OldIns { slot: u8 },
    OldRem { slot: u8 },
    OldDrop { slot: u8 },
    /// open an existing keyspace again with different options: must return the existing content
    OpenOther { ks: u8 },
}

pub fn ksn(i: u8) -> &'static str {
    KS_NAMES[i as usize]
}
fn kn(i: u8) -> String {
    show_key(KEYS[i as usize])
}
fn vn(v: u8) -> &'static str {
    match v {
        0 => "1",
        1 => "2",
        2 => "''",
        3 => "BIG",
        4 => "BIG9K",
        _ => "?",
    }
}
fn item_str(i: &Item) -> String {
    match i.v {
        Some(v) => format!("{}.{}={}", ksn(i.ks), kn(i.k), vn(v)),
        None => format!("{}.{}=-", ksn(i.ks), kn(i.k)),
    }
}

impl std::fmt::Display for Op {
    fn fmt(&self, f: &mut std::fmt::Formatter<'_>) -> std::fmt::Result {
        match self {
            Op::Ins { ks, k, v } => write!(f, "ins {}.{}={}", ksn(*ks), kn(*k), vn(*v)),
            Op::Rem { ks, k } => write!(f, "rem {}.{}", ksn(*ks), kn(*k)),
            Op::Batch(items) => write!(
                f,
                "batch [{}]",
                items.iter().map(item_str).collect::<Vec<_>>().join(" ")
            ),
            Op::Tx(items) => write!(
                f,
                "tx [{}]",
                items.iter().map(item_str).collect::<Vec<_>>().join(" ")
            ),
            Op::BatchD(items, d) => write!(
                f,
                "batch:{} [{}]",
                ["none", "buffer", "syncdata", "syncall"][*d as usize],
                items.iter().map(item_str).collect::<Vec<_>>().join(" ")
            ),
            Op::TxD(items, d) => write!(
                f,
                "tx:{} [{}]",
                ["none", "buffer", "syncdata", "syncall"][*d as usize],
                items.iter().map(item_str).collect::<Vec<_>>().join(" ")
            ),
            Op::Clear { ks } => write!(f, "clear {}", ksn(*ks)),
            Op::Ingest { ks, items } => write!(
                f,
                "ingest {} [{}]",
                ksn(*ks),
                items
                    .iter()
                    .map(|(k, v)| match v {
                        Some(v) => format!("{}={}", kn(*k), vn(*v)),
                        None => format!("{}=-", kn(*k)),
                    })
                    .collect::<Vec<_>>()
                    .join(" ")
            ),
            Op::Rotate { ks } => write!(f, "rotate {}", ksn(*ks)),
            Op::Step { msg, jrot } => {
                write!(f, "step{} {}", if *jrot { "+jrot" } else { "" }, msg)
            }
            Op::Major { ks } => write!(f, "major {}", ksn(*ks)),
            Op::Reopen => write!(f, "reopen"),
            Op::Create { ks } => write!(f, "create {}", ksn(*ks)),
            Op::Delete { ks } => write!(f, "delete {}", ksn(*ks)),
            Op::Persist { mode } => write!(
                f,
                "persist {}",
                ["Buffer", "SyncData", "SyncAll"][*mode as usize]
            ),
            Op::DeleteKeep { ks } => write!(f, "delete-keep-handle {}", ksn(*ks)),
            Op::OldIns { slot } => write!(f, "old-ins {slot}"),
            Op::OldRem { slot } => write!(f, "old-rem {slot}"),
            Op::OldDrop { slot } => write!(f, "old-drop {slot}"),
            Op::OpenOther { ks } => write!(f, "open-other-opts {}", ksn(*ks)),
        }
    }
}

fn parse_ks(s: &str) -> Result<u8, String> {
    KS_NAMES
        .iter()
        .position(|n| *n == s)
        .map(|i| i as u8)
        .ok_or_else(|| format!("bad keyspace {s}"))
}
fn parse_key(s: &str) -> Result<u8, String> {
    KEYS.iter()
        .position(|k| *k == s.as_bytes())
        .map(|i| i as u8)
        .ok_or_else(|| format!("bad key {s}"))
}
fn parse_val(s: &str) -> Result<Option<u8>, String> {
    Ok(match s {
        "-" => None,
        "1" => Some(0),
        "2" => Some(1),
        "''" => Some(2),
        "BIG" => Some(3),
        "BIG9K" => Some(4),
        _ => return Err(format!("bad value {s}")),
    })
}
fn parse_item(s: &str) -> Result<Item, String> {
    let (lhs, v) = s.split_once('=').ok_or("item needs =")?;
    let (ks, k) = lhs.split_once('.').ok_or("item needs ks.key")?;
    Ok(Item { ks: parse_ks(ks)?, k: parse_key(k)?, v: parse_val(v)? })
}

impl Op {
    pub fn parse(s: &str) -> Result<Op, String> {
        let s = s.trim();
        let (head, rest) = s.split_once(' ').unwrap_or((s, ""));
        let rest = rest.trim();
        let list = |r: &str| -> Vec<String> {
            r.trim_start_matches('[')
                .trim_end_matches(']')
                .split_whitespace()
                .map(str::to_string)
                .collect()
        };
        Ok(match head {
            "ins" => {
                let it = parse_item(rest)?;
                Op::Ins { ks: it.ks, k: it.k, v: it.v.ok_or("ins needs value")? }
            }
            "rem" => {
                let (ks, k) = rest.split_once('.').ok_or("rem ks.key")?;
                Op::Rem { ks: parse_ks(ks)?, k: parse_key(k)? }
            }
            "batch" => Op::Batch(list(rest).iter().map(|s| parse_item(s)).collect::<Result<_, _>>()?),
            "tx" => Op::Tx(list(rest).iter().map(|s| parse_item(s)).collect::<Result<_, _>>()?),
            "clear" => Op::Clear { ks: parse_ks(rest)? },
            h if h.starts_with("batch:") || h.starts_with("tx:") => {
                let (kind, d) = h.split_once(':').unwrap();
                let dur = ["none", "buffer", "syncdata", "syncall"].iter().position(|x| *x == d).ok_or("bad durability")? as u8;
                let items: Vec<Item> = list(rest).iter().map(|s| parse_item(s)).collect::<Result<_, _>>()?;
                if kind == "batch" { Op::BatchD(items, dur) } else { Op::TxD(items, dur) }
            }
            "ingest" => {
                let (ks, r) = rest.split_once(' ').ok_or("ingest ks [..]")?;
                let mut items = vec![];
                for it in list(r) {
                    let (k, v) = it.split_once('=').ok_or("k=v")?;
                    items.push((parse_key(k)?, parse_val(v)?));
                }
                Op::Ingest { ks: parse_ks(ks)?, items }
            }
            "rotate" => Op::Rotate { ks: parse_ks(rest)? },
            "step" => Op::Step { msg: rest.to_string(), jrot: false },
            "step+jrot" => Op::Step { msg: rest.to_string(), jrot: true },
            "major" => Op::Major { ks: parse_ks(rest)? },
            "reopen" => Op::Reopen,
            "create" => Op::Create { ks: parse_ks(rest)? },
            "delete" => Op::Delete { ks: parse_ks(rest)? },
            "delete-keep-handle" => Op::DeleteKeep { ks: parse_ks(rest)? },
            "old-ins" => Op::OldIns { slot: rest.parse().map_err(|_| "slot")? },
            "old-rem" => Op::OldRem { slot: rest.parse().map_err(|_| "slot")? },
            "old-drop" => Op::OldDrop { slot: rest.parse().map_err(|_| "slot")? },
            "open-other-opts" => Op::OpenOther { ks: parse_ks(rest)? },
            "persist" => Op::Persist {
                mode: ["Buffer", "SyncData", "SyncAll"]
                    .iter()
                    .position(|m| *m == rest)
                    .ok_or("bad persist mode")? as u8,
            },
            _ => return Err(format!("unknown op {s}")),
        })
    }
}

pub fn persist_mode(m: u8) -> PersistMode {
    match m {
        0 => PersistMode::Buffer,
        1 => PersistMode::SyncData,
        _ => PersistMode::SyncAll,
    }
}

pub enum Db {
    Plain(Database),
    Sw(SingleWriterTxDatabase),
    Occ(OptimisticTxDatabase),
}

impl Db {
    pub fn inner(&self) -> &Database {
        match self {
            Db::Plain(d) => d,
            Db::Sw(d) => d.inner(),
            Db::Occ(d) => d.inner(),
        }
    }
}

#[derive(Debug, Clone)]
pub struct Violation {
    pub clause: String,
    pub detail: String,
}

impl Violation {
    pub fn new(clause: &str, detail: impl Into<String>) -> Self {
        Violation { clause: clause.to_string(), detail: detail.into() }
    }
}

pub struct World {
    pub dir: PathBuf,
    pub cfg: Cfg,
    pub db: Option<Db>,
    /// live handles by keyspace index
    pub ks: BTreeMap<u8, Keyspace>,
    /// reference model: existing keyspaces only
    pub model: BTreeMap<u8, Map>,
    /// number of ops executed
    pub steps: usize,
    /// optional compaction filter assigner (C18)
    pub filter: Option<fjall_filter::Assigner>,
    /// statistics: set when the corresponding situation was reached at least once
    pub wit: Witness,
    /// do not delete the directory on drop (crash driver)
    pub keep_dir: bool,
    /// journal file -> (keyspace, seqno) of every record written into it (C10)
    pub journal_records: BTreeMap<String, Vec<(u8, u64)>>,
    /// journal files that disappeared during the last operation, with the persisted seqnos at that instant
    pub journal_deletions: Vec<String>,
    pub track_journals: bool,
    /// incarnation counter per keyspace name (C12 provenance)
    pub incarnation: BTreeMap<u8, u32>,
    /// handles of deleted keyspaces that are still alive: (keyspace index, handle)
    pub old: Vec<Option<(u8, Keyspace)>>,
    /// C18: keys observed in their filtered form (cleared when the key is written again)
    pub filtered_seen: std::collections::BTreeSet<(u8, Vec<u8>)>,
    /// C18: where the newest version of a key lives: 0 active memtable, 1 sealed memtable, 2 table
    pub loc: BTreeMap<(u8, Vec<u8>), u8>,
    /// keyspaces with a queued flush task, in queue order
    pub flush_queue: std::collections::VecDeque<u8>,
    /// C18: keys whose newest version went through a major compaction (an assigned filter must have been applied)
    pub must_filtered: std::collections::BTreeSet<(u8, Vec<u8>)>,
    /// contents of the sealed memtables per keyspace, oldest first (lsm-tree does not expose them): canonical state
    pub sealed_shadow: BTreeMap<u8, std::collections::VecDeque<Vec<(Vec<u8>, u64, u8, Vec<u8>)>>>,
    /// the shadow could not be kept (two memtables sealed within one operation): no canonical state any more
    pub shadow_lost: bool,
    /// keep `sealed_shadow` (only when the explorer deduplicates by canonical state)
    pub track_shadow: bool,
    /// journal file -> every journaled operation the harness issued while it was the active journal (text, seqno)
    pub journal_ops: BTreeMap<String, Vec<(String, u64)>>,
    /// every committed write operation as a group of (keyspace, key, value or tombstone); a clear is (ks, [], None)
    /// with `true` (C03: batch atomicity on crash images)
    pub write_log: Vec<Vec<(u8, Vec<u8>, Option<Vec<u8>>, bool)>>,
}

pub mod fjall_filter {
    use std::sync::Arc;
    pub type Assigner = Arc<
        dyn Fn(&str) -> Option<Arc<dyn fjall::compaction::filter::Factory>> + Send + Sync,
    >;
}

#[derive(Default, Clone, Debug)]
pub struct Witness {
    pub flushed: u32,
    pub compacted: u32,
    pub journal_rotated: u32,
    pub journal_deleted: u32,
    pub reopened: u32,
    pub blob_files: u32,
    pub l1_tables: u32,
    pub shadow: u32,
}

impl Witness {
    pub fn add(&mut self, o: &Witness) {
        self.flushed += o.flushed;
        self.compacted += o.compacted;
        self.journal_rotated += o.journal_rotated;
        self.journal_deleted += o.journal_deleted;
        self.reopened += o.reopened;
        self.blob_files += o.blob_files;
        self.l1_tables += o.l1_tables;
        self.shadow += o.shadow;
    }
    pub fn to_json(&self) -> serde_json::Value {
        serde_json::json!({
            "flush_steps": self.flushed, "compaction_steps": self.compacted,
            "journal_rotations": self.journal_rotated, "journal_deletions": self.journal_deleted,
            "reopens": self.reopened, "states_with_blob_files": self.blob_files,
            "states_with_tables_below_l0": self.l1_tables,
            "states_with_key_in_tables_and_memtable": self.shadow,
        })
    }
}

pub fn open_db(dir: &Path, cfg: &Cfg, filter: &Option<fjall_filter::Assigner>) -> fjall::Result<Db> {
    macro_rules! b {
        ($t:ty) => {{
            let mut b = <$t>::builder(dir)
                .worker_threads_unchecked(0)
                .manual_journal_persist(cfg.manual_persist)
                .journal_compression(if cfg.lz4 {
                    fjall::CompressionType::Lz4
                } else {
                    fjall::CompressionType::None
                });
            if let Some(f) = filter {
                b = b.with_compaction_filter_factories(f.clone());
            }
            if cfg.maxj || std::env::var("FJV_MAXJ").is_ok() {
                b = b.max_journaling_size(64 * 1_024 * 1_024);
            }
            b.open()
        }};
    }
    Ok(match cfg.kind {
        DbKind::Plain => Db::Plain(b!(Database)?),
        DbKind::SingleWriter => Db::Sw(b!(SingleWriterTxDatabase)?),
        DbKind::Optimistic => Db::Occ(b!(OptimisticTxDatabase)?),
    })
}

pub fn journal_files(dir: &Path) -> Vec<String> {
    let mut v: Vec<(u64, String)> = std::fs::read_dir(dir)
        .map(|rd| {
            rd.filter_map(|e| e.ok())
                .filter_map(|e| {
                    let n = e.file_name().to_string_lossy().into_owned();
                    n.strip_suffix(".jnl")
                        .and_then(|b| b.parse::<u64>().ok())
                        .map(|id| (id, n.clone()))
                })
                .collect()
        })
        .unwrap_or_default();
    v.sort();
    v.into_iter().map(|(_, n)| n).collect()
}

impl World {
    pub fn new(dir: PathBuf, cfg: Cfg) -> Result<World, Violation> {
        Self::new_with_filter(dir, cfg, None)
    }

    pub fn new_with_filter(
        dir: PathBuf,
        cfg: Cfg,
        filter: Option<fjall_filter::Assigner>,
    ) -> Result<World, Violation> {
        let _ = std::fs::remove_dir_all(&dir);
        let db = open_db(&dir, &cfg, &filter)
            .map_err(|e| Violation::new("open", format!("initial open failed: {e:?}")))?;
        let mut w = World {
            dir,
            cfg,
            db: Some(db),
            ks: BTreeMap::new(),
            model: BTreeMap::new(),
            steps: 0,
            filter,
            wit: Witness::default(),
            keep_dir: false,
            journal_records: BTreeMap::new(),
            journal_deletions: vec![],
            track_journals: false,
            incarnation: BTreeMap::new(),
            old: vec![],
            filtered_seen: Default::default(),
            loc: BTreeMap::new(),
            flush_queue: Default::default(),
            must_filtered: Default::default(),
            sealed_shadow: Default::default(),
            shadow_lost: false,
            track_shadow: false,
            journal_ops: Default::default(),
            write_log: vec![],
        };
        for i in 0..w.cfg.nks as u8 {
            w.create_ks(i)?;
        }
        Ok(w)
    }

    /// Opens an existing directory (crash image) as a world whose model is `model`.
    pub fn open_existing(dir: PathBuf, cfg: Cfg, model: BTreeMap<u8, Map>) -> Result<World, Violation> {
        let db = open_db(&dir, &cfg, &None)
            .map_err(|e| Violation::new("open", format!("open failed: {e:?}")))?;
        let mut w = World {
            dir,
            cfg,
            db: Some(db),
            ks: BTreeMap::new(),
            model,
            steps: 0,
            filter: None,
            wit: Witness::default(),
            keep_dir: false,
            journal_records: BTreeMap::new(),
            journal_deletions: vec![],
            track_journals: false,
            incarnation: BTreeMap::new(),
            old: vec![],
            filtered_seen: Default::default(),
            loc: BTreeMap::new(),
            flush_queue: Default::default(),
            must_filtered: Default::default(),
            sealed_shadow: Default::default(),
            shadow_lost: false,
            track_shadow: false,
            journal_ops: Default::default(),
            write_log: vec![],
        };
        let names: Vec<u8> = w.model.keys().copied().collect();
        for i in names {
            let h = w
                .dbi()
                .keyspace(ksn(i), KeyspaceCreateOptions::default)
                .map_err(|e| Violation::new("open", format!("keyspace: {e:?}")))?;
            w.ks.insert(i, h);
        }
        Ok(w)
    }

    pub fn dbi(&self) -> &Database {
        self.db.as_ref().expect("db open").inner()
    }

    fn create_ks(&mut self, i: u8) -> Result<(), Violation> {
        let opts = self.cfg.ks_opts();
        let h = self
            .dbi()
            .keyspace(ksn(i), || opts)
            .map_err(|e| Violation::new("create_keyspace", format!("{e:?}")))?;
        self.ks.insert(i, h);
        if !self.model.contains_key(&i) {
            *self.incarnation.entry(i).or_insert(0) += 1;
        }
        self.model.entry(i).or_default();
        Ok(())
    }

    pub fn pending(&self) -> Vec<String> {
        self.dbi().verif_pending()
    }

    /// Is a write to keyspace `ks` enabled (the real call would not sit in a stall loop)?
    pub fn write_enabled(&self, ks: u8) -> bool {
        match self.ks.get(&ks) {
            Some(h) => h.tree.sealed_memtable_count() < 4 && h.tree.l0_run_count() < 20,
            None => false,
        }
    }

    /// the byte value written for value index `v` into keyspace `ks`
    pub fn val(&self, ks: u8, v: u8) -> Vec<u8> {
        if self.cfg.prov {
            format!("{}{}#{}", ksn(ks), self.incarnation.get(&ks).copied().unwrap_or(0), v).into_bytes()
        } else {
            value(v)
        }
    }

    fn mitem(&mut self, it: &Item) {
        let logged = (it.ks, KEYS[it.k as usize].to_vec(), it.v.map(|v| self.val(it.ks, v)), false);
        if let Some(g) = self.write_log.last_mut() {
            g.push(logged);
        }
        self.filtered_seen.remove(&(it.ks, KEYS[it.k as usize].to_vec()));
        self.must_filtered.remove(&(it.ks, KEYS[it.k as usize].to_vec()));
        self.loc.insert((it.ks, KEYS[it.k as usize].to_vec()), 0);
        let newv = it.v.map(|v| self.val(it.ks, v));
        let m = self.model.get_mut(&it.ks).expect("model ks");
        match newv {
            Some(v) => {
                m.insert(KEYS[it.k as usize].to_vec(), v);
            }
            None => {
                m.remove(KEYS[it.k as usize]);
            }
        }
    }

    /// Executes one operation against the real database and the model.
    /// `Err` = the operation itself misbehaved (unexpected error / panic is caught by the caller).
    pub fn apply(&mut self, op: &Op) -> Result<(), Violation> {
        if self.track_shadow {
            let pre: BTreeMap<u8, _> = self.ks.iter().map(|(k, h)| (*k, crate::canon::active_items(h))).collect();
            let r = self.apply_tracked(op);
            if self.db.is_some() {
                self.reconcile_sealed(pre);
            }
            return r;
        }
        self.apply_tracked(op)
    }

    fn apply_tracked(&mut self, op: &Op) -> Result<(), Violation> {
        if !self.track_journals {
            return self.apply_inner(op);
        }
        let before = journal_files(&self.dir);
        let pre_seqno = self.db.as_ref().map(|d| d.inner().seqno()).unwrap_or(0);
        let r = self.apply_inner(op);
        if r.is_ok() {
            let touched: Vec<u8> = match op {
                Op::Ins { ks, .. } | Op::Rem { ks, .. } | Op::Clear { ks } => vec![*ks],
                Op::Batch(items) | Op::Tx(items) | Op::BatchD(items, _) | Op::TxD(items, _) => {
                    let mut v: Vec<u8> = items.iter().map(|i| i.ks).collect();
                    v.sort();
                    v.dedup();
                    v
                }
                _ => vec![],
            };
            if let Some(active) = before.last() {
                if !touched.is_empty() {
                    self.journal_ops.entry(active.clone()).or_default().push((op.to_string(), pre_seqno));
                }
                for ks in touched {
                    self.journal_records.entry(active.clone()).or_default().push((ks, pre_seqno));
                }
            }
        }
        let after = journal_files(&self.dir);
        for j in before.iter().filter(|j| !after.contains(j)) {
            self.journal_deletions.push(j.clone());
        }
        r
    }

    fn apply_inner(&mut self, op: &Op) -> Result<(), Violation> {
        self.steps += 1;
        match op {
            Op::Ins { .. } | Op::Rem { .. } | Op::Batch(_) | Op::BatchD(..) | Op::Tx(_) | Op::TxD(..) | Op::Ingest { .. } => self.write_log.push(vec![]),
            Op::Clear { ks } => self.write_log.push(vec![(*ks, vec![], None, true)]),
            _ => {}
        }
        let e = |what: &str, e: fjall::Error| Violation::new("op_error", format!("{what}: {e:?}"));
        match op {
            Op::Ins { ks, k, v } => {
                self.ks[ks].insert(KEYS[*k as usize], self.val(*ks, *v)).map_err(|x| e("insert", x))?;
                self.mitem(&Item { ks: *ks, k: *k, v: Some(*v) });
            }
            Op::Rem { ks, k } => {
                self.ks[ks].remove(KEYS[*k as usize]).map_err(|x| e("remove", x))?;
                self.mitem(&Item { ks: *ks, k: *k, v: None });
            }
            Op::Batch(items) => {
                let mut b = self.dbi().batch();
                for it in items {
                    match it.v {
                        Some(v) => b.insert(&self.ks[&it.ks], KEYS[it.k as usize], self.val(it.ks, v)),
                        None => b.remove(&self.ks[&it.ks], KEYS[it.k as usize]),
                    }
                }
                b.commit().map_err(|x| e("batch.commit", x))?;
                for it in items {
                    self.mitem(it);
                }
            }
            Op::BatchD(items, dur) => {
                let d = match dur {
                    0 => None,
                    n => Some(persist_mode(n - 1)),
                };
                let mut b = self.dbi().batch().durability(d);
                for it in items {
                    match it.v {
                        Some(v) => b.insert(&self.ks[&it.ks], KEYS[it.k as usize], self.val(it.ks, v)),
                        None => b.remove(&self.ks[&it.ks], KEYS[it.k as usize]),
                    }
                }
                b.commit().map_err(|x| e("batch.commit", x))?;
                for it in items {
                    self.mitem(it);
                }
            }
            Op::TxD(items, dur) => {
                let d = match dur {
                    0 => None,
                    n => Some(persist_mode(n - 1)),
                };
                match self.db.as_ref().expect("db") {
                    Db::Plain(_) => return Err(Violation::new("harness", "tx on plain db")),
                    Db::Sw(dbx) => {
                        let mut tx = dbx.write_tx().durability(d);
                        for it in items {
                            let h = dbx.keyspace(ksn(it.ks), KeyspaceCreateOptions::default).map_err(|x| e("tx keyspace", x))?;
                            match it.v {
                                Some(v) => tx.insert(&h, KEYS[it.k as usize], self.val(it.ks, v)),
                                None => tx.remove(&h, KEYS[it.k as usize]),
                            }
                        }
                        tx.commit().map_err(|x| e("tx.commit", x))?;
                    }
                    Db::Occ(dbx) => {
                        let mut tx = dbx.write_tx().map_err(|x| e("write_tx", x))?.durability(d);
                        for it in items {
                            match it.v {
                                Some(v) => tx.insert(&self.ks[&it.ks], KEYS[it.k as usize], self.val(it.ks, v)),
                                None => tx.remove(&self.ks[&it.ks], KEYS[it.k as usize]),
                            }
                        }
                        if tx.commit().map_err(|x| e("tx.commit", x))?.is_err() {
                            return Err(Violation::new("op_error", "blind optimistic tx reported Conflict"));
                        }
                    }
                }
                for it in items {
                    self.mitem(it);
                }
            }
            Op::Tx(items) => {
                match self.db.as_ref().expect("db") {
                    Db::Plain(_) => return Err(Violation::new("harness", "tx on plain db")),
                    Db::Sw(d) => {
                        let mut tx = d.write_tx();
                        for it in items {
                            let h = d
                                .keyspace(ksn(it.ks), KeyspaceCreateOptions::default)
                                .map_err(|x| e("tx keyspace", x))?;
                            match it.v {
                                Some(v) => tx.insert(&h, KEYS[it.k as usize], self.val(it.ks, v)),
                                None => tx.remove(&h, KEYS[it.k as usize]),
                            }
                        }
                        tx.commit().map_err(|x| e("tx.commit", x))?;
                    }
                    Db::Occ(d) => {
                        let mut tx = d.write_tx().map_err(|x| e("write_tx", x))?;
                        for it in items {
                            match it.v {
                                Some(v) => tx.insert(&self.ks[&it.ks], KEYS[it.k as usize], self.val(it.ks, v)),
                                None => tx.remove(&self.ks[&it.ks], KEYS[it.k as usize]),
                            }
                        }
                        match tx.commit().map_err(|x| e("tx.commit", x))? {
                            Ok(()) => {}
                            Err(_) => {
                                return Err(Violation::new(
                                    "op_error",
                                    "blind optimistic tx reported Conflict with no concurrent tx",
                                ))
                            }
                        }
                    }
                }
                for it in items {
                    self.mitem(it);
                }
            }
            Op::Clear { ks } => {
                self.ks[ks].clear().map_err(|x| e("clear", x))?;
                self.model.get_mut(ks).expect("ks").clear();
                self.filtered_seen.retain(|(k, _)| k != ks);
                self.must_filtered.retain(|(k, _)| k != ks);
                self.loc.retain(|(k, _), _| k != ks);
            }
            Op::Ingest { ks, items } => {
                let h = &self.ks[ks];
                let mut ing = h.start_ingestion().map_err(|x| e("start_ingestion", x))?;
                for (k, v) in items {
                    match v {
                        Some(v) => ing.write(KEYS[*k as usize], self.val(*ks, *v)).map_err(|x| e("ingest.write", x))?,
                        None => ing
                            .write_tombstone(KEYS[*k as usize])
                            .map_err(|x| e("ingest.write_tombstone", x))?,
                    }
                }
                ing.finish().map_err(|x| e("ingest.finish", x))?;
                for (k, v) in items {
                    self.mitem(&Item { ks: *ks, k: *k, v: *v });
                }
            }
            Op::Rotate { ks } => {
                let rotated = self.ks[ks].rotate_memtable().map_err(|x| e("rotate_memtable", x))?;
                if rotated {
                    for ((k, _), l) in self.loc.iter_mut() {
                        if k == ks && *l == 0 {
                            *l = 1;
                        }
                    }
                    self.flush_queue.push_back(*ks);
                }
            }
            Op::Step { msg, jrot } => {
                let pend = self.pending();
                let idx = pend
                    .iter()
                    .position(|m| m == msg)
                    .ok_or_else(|| Violation::new("harness", format!("no pending message {msg}; have {pend:?}")))?;
                let before = journal_files(&self.dir);
                if *jrot {
                    FAKE_JOURNAL_POS.with(|c| c.set(Some(65_000_000)));
                }
                let r = self.dbi().verif_step(idx);
                FAKE_JOURNAL_POS.with(|c| c.set(None));
                r.map_err(|x| e("worker step", x))?;
                let after = journal_files(&self.dir);
                if after.iter().any(|j| !before.contains(j)) {
                    self.wit.journal_rotated += 1;
                }
                if before.iter().any(|j| !after.contains(j)) {
                    self.wit.journal_deleted += 1;
                }
                if msg.contains("Flush") {
                    if let Some(fks) = self.flush_queue.pop_front() {
                        for ((k, _), l) in self.loc.iter_mut() {
                            if *k == fks && *l == 1 {
                                *l = 2;
                            }
                        }
                    }
                    self.wit.flushed += 1;
                } else if msg.contains("Compact") {
                    self.wit.compacted += 1;
                }
            }
            Op::Major { ks } => {
                self.ks[ks].major_compact().map_err(|x| e("major_compact", x))?;
                self.wit.compacted += 1;
                let keys: Vec<(u8, Vec<u8>)> = self.loc.iter().filter(|((k, _), l)| k == ks && **l == 2).map(|(k, _)| k.clone()).collect();
                self.must_filtered.extend(keys);
            }
            Op::Reopen => {
                // after recovery the placement of unflushed data is not tracked: no obligation from it
                for l in self.loc.values_mut() {
                    if *l == 1 {
                        *l = 0;
                    }
                }
                self.flush_queue.clear();
                self.close();
                if self.cfg.prov {
                    // C12: once the database is dropped no handle is left: folders of deleted keyspaces must be gone
                    let dirs = self.keyspace_dirs();
                    if dirs != self.model.len() {
                        return Err(Violation::new(
                            "deleted.folder_remains",
                            format!("after dropping every handle {dirs} keyspace folders exist on disk but {} keyspaces exist", self.model.len()),
                        ));
                    }
                }
                let db = open_db(&self.dir, &self.cfg, &self.filter)
                    .map_err(|x| Violation::new("reopen", format!("open failed: {x:?}")))?;
                self.db = Some(db);
                let names: Vec<u8> = self.model.keys().copied().collect();
                for i in names {
                    if !self.dbi().keyspace_exists(ksn(i)) {
                        return Err(Violation::new(
                            "reopen.keyspace_set",
                            format!("keyspace {} missing after reopen", ksn(i)),
                        ));
                    }
                    let h = self
                        .dbi()
                        .keyspace(ksn(i), KeyspaceCreateOptions::default)
                        .map_err(|x| e("keyspace after reopen", x))?;
                    self.ks.insert(i, h);
                }
                self.wit.reopened += 1;
            }
            Op::Create { ks } => {
                self.create_ks(*ks)?;
            }
            Op::Delete { ks } => {
                let h = self.ks.remove(ks).expect("handle");
                self.dbi().delete_keyspace(h).map_err(|x| e("delete_keyspace", x))?;
                self.model.remove(ks);
            }
            Op::Persist { mode } => {
                self.dbi().persist(persist_mode(*mode)).map_err(|x| e("persist", x))?;
            }
            Op::DeleteKeep { ks } => {
                let h = self.ks.remove(ks).expect("handle");
                self.old.push(Some((*ks, h.clone())));
                self.dbi().delete_keyspace(h).map_err(|x| e("delete_keyspace", x))?;
                self.model.remove(ks);
            }
            Op::OldIns { slot } | Op::OldRem { slot } => {
                let (_ks, h) = self.old[*slot as usize].as_ref().expect("old handle");
                let r = if matches!(op, Op::OldIns { .. }) { h.insert("a", "ghost") } else { h.remove("a") };
                match r {
                    Err(fjall::Error::KeyspaceDeleted) => {}
                    other => {
                        return Err(Violation::new(
                            "deleted.old_handle_not_refused",
                            format!("write through a handle of a deleted keyspace returned {other:?} instead of KeyspaceDeleted"),
                        ))
                    }
                }
            }
            Op::OldDrop { slot } => {
                self.old[*slot as usize] = None;
            }
            Op::OpenOther { ks } => {
                let opts = KeyspaceCreateOptions::default()
                    .max_memtable_size(1234)
                    .manual_journal_persist(!self.cfg.manual_persist)
                    .with_kv_separation(if self.cfg.blob { None } else { Some(KvSeparationOptions::default()) });
                let h = self.dbi().keyspace(ksn(*ks), || opts).map_err(|x| e("keyspace(existing)", x))?;
                self.ks.insert(*ks, h);
            }
        }
        Ok(())
    }

    /// Drops every handle (the database is closed afterwards).
    pub fn close(&mut self) {
        self.ks.clear();
        self.old.clear();
        self.db = None;
    }

    /// Number of keyspace folders on disk (excluding the meta keyspace `0`).
    pub fn keyspace_dirs(&self) -> usize {
        std::fs::read_dir(self.dir.join("keyspaces"))
            .map(|rd| rd.filter_map(|e| e.ok()).filter(|e| e.file_name() != "0").count())
            .unwrap_or(0)
    }

    /// `observe(ks)` == model for every keyspace.
    pub fn check_all(&mut self, p: Probe) -> Result<Vec<u64>, Violation> {
        let mut digests = vec![];
        for (i, m) in &self.model {
            let h = &self.ks[i];
            let got = observe_ks(h, p);
            let want = observe_model(m, p);
            if got != want {
                return Err(Violation::new(
                    "observe!=model",
                    format!("keyspace {}: {} (model {})", ksn(*i), got.diff(&want), show_map(m)),
                ));
            }
            digests.push(got.digest());
        }
        Ok(digests)
    }

    /// Updates structural witness counters from the current state.
    pub fn note_structure(&mut self) {
        let mut blob = false;
        let mut l1 = false;
        let mut shadow = false;
        for h in self.ks.values() {
            if h.blob_file_count() > 0 {
                blob = true;
            }
            let t = h.table_count();
            let l0 = h.l0_table_count();
            if t > l0 {
                l1 = true;
            }
            if t > 0 && h.tree.active_memtable().len() > 0 {
                shadow = true;
            }
        }
        self.wit.blob_files += u32::from(blob);
        self.wit.l1_tables += u32::from(l1);
        self.wit.shadow += u32::from(shadow);
    }

    /// Names of keyspaces the database lists, sorted.
    pub fn listed(&self) -> Vec<String> {
        let mut v: Vec<String> =
            self.dbi().list_keyspace_names().iter().map(|s| s.to_string()).collect();
        v.sort();
        v
    }
}

impl Drop for World {
    fn drop(&mut self) {
        self.close();
        if !self.keep_dir {
            let _ = std::fs::remove_dir_all(&self.dir);
        }
    }
}

pub fn install_seq_hooks_lazy() {
    install_seq_hooks();
}

/// The hook table installed for E1/E2 processes: only `spin` (decline to sleep) and `journal_pos`.
pub fn install_seq_hooks() {
    fn nop_point(_: &'static str) {}
    fn nop_block(_: &(dyn Fn() -> bool + Sync), _: &'static str) {}
    fn spin(_: &'static str) -> bool {
        true
    }
    fn nop() {}
    fn nop_start(_: &'static str) {}
    fn jpos() -> Option<u64> {
        FAKE_JOURNAL_POS.with(|c| c.get())
    }
    fjall::verif::install(fjall::verif::Hooks {
        point: nop_point,
        block_until: nop_block,
        spin,
        expect_thread: nop,
        thread_start: nop_start,
        thread_exit: nop,
        journal_pos: jpos,
    });
}
