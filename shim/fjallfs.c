// libfjallfs.so — LD_PRELOAD file-system shim for crash / power-loss / I/O-fault enumeration (engine E2).
//
// Acts only on paths under $FJALLFS_ROOT. Numbers every file-mutating libc call (and fsync/fdatasync),
// logs it, and depending on $FJALLFS_MODE:
//   image          before every numbered call n: copy ROOT to $FJALLFS_IMG/<n> (process-crash image) and, if
//                  $FJALLFS_POWERLOSS=1, the shadow "durable" tree to $FJALLFS_IMG/<n>.pl (power-loss image:
//                  file data as of each file's last fsync/fdatasync, directory operations kept)
//   crash=<n>      _exit(137) before executing numbered call n (no destructors, user-space buffers die)
//   fail=<m>:<errno>[:<k>]  the m-th journal operation (write/fsync/fdatasync on a *.jnl file, counted from 1)
//                  fails with errno, optionally after a short write of k bytes (one shot)
//   log            only log
// The driver process reads the current call number through fjallfs_counter().
#define _GNU_SOURCE
#include <dlfcn.h>
#include <errno.h>
#include <fcntl.h>
#include <limits.h>
#include <stdarg.h>
#include <stdio.h>
#include <stdlib.h>
#include <string.h>
#include <sys/stat.h>
#include <sys/types.h>
#include <sys/uio.h>
#include <unistd.h>
#include <dirent.h>

static int (*real_open)(const char *, int, ...);
static int (*real_open64)(const char *, int, ...);
static int (*real_openat)(int, const char *, int, ...);
static int (*real_openat64)(int, const char *, int, ...);
static int (*real_close)(int);
static ssize_t (*real_write)(int, const void *, size_t);
static ssize_t (*real_pwrite64)(int, const void *, size_t, off64_t);
static ssize_t (*real_writev)(int, const struct iovec *, int);
static int (*real_fsync)(int);
static int (*real_fdatasync)(int);
static int (*real_ftruncate64)(int, off64_t);
static int (*real_unlink)(const char *);
static int (*real_unlinkat)(int, const char *, int);
static int (*real_rmdir)(const char *);
static int (*real_rename)(const char *, const char *);
static int (*real_renameat)(int, const char *, int, const char *);
static int (*real_mkdir)(const char *, mode_t);
static int (*real_mkdirat)(int, const char *, mode_t);

static char ROOT[PATH_MAX];
static size_t ROOTLEN;
static char IMG[PATH_MAX];
static char DUR[PATH_MAX]; // shadow durable tree
static int MODE; // 0 off, 1 log, 2 image, 3 crash, 4 fail
static long CRASH_AT = -1;
static long FAIL_AT = -1;
static int FAIL_ERRNO = EIO;
static long FAIL_SHORT = -1;
static int POWERLOSS = 0;
static FILE *LOGF;
static long COUNTER = 0;  // numbered calls so far
static long JCOUNTER = 0; // journal operations so far
static int DIRTY = 1;     // ROOT changed since last image
static int DURDIRTY = 1;
static long LAST_IMG = -1, LAST_PL = -1;
static int inited = 0;
static __thread int in_shim = 0;

#define MAXFD 4096
static char *fdpath[MAXFD];

static void init(void) {
    if (inited) return;
    inited = 1;
    real_open = dlsym(RTLD_NEXT, "open");
    real_open64 = dlsym(RTLD_NEXT, "open64");
    real_openat = dlsym(RTLD_NEXT, "openat");
    real_openat64 = dlsym(RTLD_NEXT, "openat64");
    real_close = dlsym(RTLD_NEXT, "close");
    real_write = dlsym(RTLD_NEXT, "write");
    real_pwrite64 = dlsym(RTLD_NEXT, "pwrite64");
    real_writev = dlsym(RTLD_NEXT, "writev");
    real_fsync = dlsym(RTLD_NEXT, "fsync");
    real_fdatasync = dlsym(RTLD_NEXT, "fdatasync");
    real_ftruncate64 = dlsym(RTLD_NEXT, "ftruncate64");
    real_unlink = dlsym(RTLD_NEXT, "unlink");
    real_unlinkat = dlsym(RTLD_NEXT, "unlinkat");
    real_rmdir = dlsym(RTLD_NEXT, "rmdir");
    real_rename = dlsym(RTLD_NEXT, "rename");
    real_renameat = dlsym(RTLD_NEXT, "renameat");
    real_mkdir = dlsym(RTLD_NEXT, "mkdir");
    real_mkdirat = dlsym(RTLD_NEXT, "mkdirat");
    const char *r = getenv("FJALLFS_ROOT");
    const char *m = getenv("FJALLFS_MODE");
    if (!r || !m) { MODE = 0; return; }
    in_shim = 1;
    strncpy(ROOT, r, sizeof(ROOT) - 1);
    ROOTLEN = strlen(ROOT);
    const char *img = getenv("FJALLFS_IMG");
    if (img) { strncpy(IMG, img, sizeof(IMG) - 1); snprintf(DUR, sizeof(DUR), "%s/.durable", IMG); }
    const char *pl = getenv("FJALLFS_POWERLOSS");
    POWERLOSS = pl && pl[0] == '1';
    const char *lg = getenv("FJALLFS_LOG");
    if (lg) LOGF = fopen(lg, "w");
    if (!strcmp(m, "log")) MODE = 1;
    else if (!strcmp(m, "image")) MODE = 2;
    else if (!strncmp(m, "crash=", 6)) { MODE = 3; CRASH_AT = atol(m + 6); }
    else if (!strncmp(m, "fail=", 5)) {
        MODE = 4;
        char buf[128]; strncpy(buf, m + 5, sizeof(buf) - 1); buf[sizeof(buf) - 1] = 0;
        char *p = strtok(buf, ":");
        if (p) FAIL_AT = atol(p);
        p = strtok(NULL, ":");
        if (p) FAIL_ERRNO = atoi(p);
        p = strtok(NULL, ":");
        if (p) FAIL_SHORT = atol(p);
    } else MODE = 0;
    if (MODE == 2 && POWERLOSS && DUR[0]) { real_mkdir(IMG, 0777); real_mkdir(DUR, 0777); }
    in_shim = 0;
}

long fjallfs_counter(void) { return COUNTER; }
// Re-arms fault injection from inside the process (E3 bodies): the k-th journal operation from now fails with errno.
void fjallfs_arm_fail(long k, int err) { init(); if (!MODE) MODE = 1; MODE = 4; FAIL_AT = JCOUNTER + k; FAIL_ERRNO = err; FAIL_SHORT = -1; }
void fjallfs_disarm(void) { FAIL_AT = -1; }
long fjallfs_jcounter(void) { return JCOUNTER; }

static int under_root(const char *p) {
    return MODE && p && ROOTLEN && !strncmp(p, ROOT, ROOTLEN) && (p[ROOTLEN] == '/' || p[ROOTLEN] == 0);
}

// absolute path for (dirfd, path)
static int abs_path(int dirfd, const char *path, char *out) {
    if (!path) return -1;
    if (path[0] == '/') { strncpy(out, path, PATH_MAX - 1); out[PATH_MAX - 1] = 0; return 0; }
    char base[PATH_MAX];
    if (dirfd == AT_FDCWD) {
        if (!getcwd(base, sizeof(base))) return -1;
    } else {
        char link[64];
        snprintf(link, sizeof(link), "/proc/self/fd/%d", dirfd);
        ssize_t n = readlink(link, base, sizeof(base) - 1);
        if (n < 0) return -1;
        base[n] = 0;
    }
    snprintf(out, PATH_MAX, "%s/%s", base, path);
    return 0;
}

static int is_journal(const char *p) {
    size_t n = p ? strlen(p) : 0;
    return n > 4 && !strcmp(p + n - 4, ".jnl");
}

// ---------- copying (uses real_* only) ----------
static int copy_file(const char *src, const char *dst) {
    int s = real_open(src, O_RDONLY | O_CLOEXEC);
    if (s < 0) return -1;
    struct stat st;
    if (fstat(s, &st) < 0) { real_close(s); return -1; }
    int d = real_open(dst, O_WRONLY | O_CREAT | O_TRUNC | O_CLOEXEC, 0666);
    if (d < 0) { real_close(s); return -1; }
    if (real_ftruncate64(d, st.st_size) < 0) { /* ignore */ }
    static char buf[1 << 16];
    off_t pos = 0;
    while (pos < st.st_size) {
        off_t data = lseek(s, pos, SEEK_DATA);
        if (data < 0) break;
        off_t hole = lseek(s, data, SEEK_HOLE);
        if (hole < 0) hole = st.st_size;
        off_t cur = data;
        while (cur < hole) {
            size_t n = (size_t)(hole - cur) < sizeof(buf) ? (size_t)(hole - cur) : sizeof(buf);
            ssize_t r = pread(s, buf, n, cur);
            if (r <= 0) break;
            int nz = 0;
            for (ssize_t i = 0; i < r; i++) if (buf[i]) { nz = 1; break; }
            if (nz) real_pwrite64(d, buf, (size_t)r, cur);
            cur += r;
        }
        pos = hole;
    }
    real_close(s);
    real_close(d);
    return 0;
}

static void copy_tree(const char *src, const char *dst) {
    real_mkdir(dst, 0777);
    DIR *dir = opendir(src);
    if (!dir) return;
    struct dirent *e;
    while ((e = readdir(dir))) {
        if (!strcmp(e->d_name, ".") || !strcmp(e->d_name, "..")) continue;
        char a[PATH_MAX], b[PATH_MAX];
        snprintf(a, sizeof(a), "%s/%s", src, e->d_name);
        snprintf(b, sizeof(b), "%s/%s", dst, e->d_name);
        struct stat st;
        if (lstat(a, &st) < 0) continue;
        if (S_ISDIR(st.st_mode)) copy_tree(a, b);
        else if (S_ISREG(st.st_mode)) copy_file(a, b);
    }
    closedir(dir);
}

static void rm_tree(const char *p) {
    DIR *dir = opendir(p);
    if (dir) {
        struct dirent *e;
        while ((e = readdir(dir))) {
            if (!strcmp(e->d_name, ".") || !strcmp(e->d_name, "..")) continue;
            char a[PATH_MAX];
            snprintf(a, sizeof(a), "%s/%s", p, e->d_name);
            struct stat st;
            if (lstat(a, &st) < 0) continue;
            if (S_ISDIR(st.st_mode)) rm_tree(a); else real_unlink(a);
        }
        closedir(dir);
    }
    real_rmdir(p);
}

// durable shadow path for a root path
static void dur_path(const char *p, char *out) { snprintf(out, PATH_MAX, "%s%s", DUR, p + ROOTLEN); }

// Before imaging the durable tree: reconcile directory structure with ROOT for operations the shim could not see
// (lsm-tree's atomic rewrite of `current` renames through a raw syscall): files that exist in ROOT but not in
// the shadow are taken as they are (their temp file was fsynced before the rename); entries gone from ROOT are removed.
static void reconcile(const char *rootp, const char *durp) {
    DIR *dir = opendir(rootp);
    if (!dir) return;
    real_mkdir(durp, 0777);
    struct dirent *e;
    while ((e = readdir(dir))) {
        if (!strcmp(e->d_name, ".") || !strcmp(e->d_name, "..")) continue;
        char a[PATH_MAX], b[PATH_MAX];
        snprintf(a, sizeof(a), "%s/%s", rootp, e->d_name);
        snprintf(b, sizeof(b), "%s/%s", durp, e->d_name);
        struct stat st, st2;
        if (lstat(a, &st) < 0) continue;
        if (S_ISDIR(st.st_mode)) reconcile(a, b);
        else if (S_ISREG(st.st_mode) && lstat(b, &st2) < 0) copy_file(a, b);
    }
    closedir(dir);
    dir = opendir(durp);
    if (!dir) return;
    while ((e = readdir(dir))) {
        if (!strcmp(e->d_name, ".") || !strcmp(e->d_name, "..")) continue;
        char a[PATH_MAX], b[PATH_MAX];
        snprintf(a, sizeof(a), "%s/%s", rootp, e->d_name);
        snprintf(b, sizeof(b), "%s/%s", durp, e->d_name);
        struct stat st, st2;
        if (lstat(a, &st) < 0) {
            if (lstat(b, &st2) == 0) { if (S_ISDIR(st2.st_mode)) rm_tree(b); else real_unlink(b); }
        }
    }
    closedir(dir);
}

// ---------- the numbered event ----------
// returns 1 if the call must fail (errno set), 0 otherwise
static int event(const char *call, const char *path, long long off, long long len, int journal_op) {
    long n = COUNTER;
    if (MODE == 3 && n == CRASH_AT) _exit(137);
    if (MODE == 2 && IMG[0]) {
        in_shim = 1;
        char dst[PATH_MAX];
        if (1) { // always: operations invisible to the shim (raw-syscall renames) may have changed ROOT
            snprintf(dst, sizeof(dst), "%s/%ld", IMG, n);
            copy_tree(ROOT, dst);
            LAST_IMG = n;
            DIRTY = 0;
        }
        if (POWERLOSS) {
            if (1) {
                reconcile(ROOT, DUR);
                snprintf(dst, sizeof(dst), "%s/%ld.pl", IMG, n);
                copy_tree(DUR, dst);
                LAST_PL = n;
                DURDIRTY = 0;
            }
        }
        in_shim = 0;
    }
    long jn = 0;
    if (journal_op) { JCOUNTER++; jn = JCOUNTER; }
    if (LOGF) {
        fprintf(LOGF, "%ld %s %s %lld %lld img=%ld pl=%ld jop=%ld\n", n, call, path ? path + ROOTLEN : "-", off, len, LAST_IMG, LAST_PL, jn);
        fflush(LOGF);
    }
    COUNTER++;
    if (MODE == 4 && journal_op && jn == FAIL_AT) return 1;
    return 0;
}

static void track(int fd, const char *path) {
    if (fd >= 0 && fd < MAXFD) {
        free(fdpath[fd]);
        fdpath[fd] = path ? strdup(path) : NULL;
    }
}

static const char *pathof(int fd) { return (fd >= 0 && fd < MAXFD) ? fdpath[fd] : NULL; }

// ---------- interposed calls ----------
static int do_open(int dirfd, const char *path, int flags, mode_t mode, int use64) {
    init();
    char ap[PATH_MAX];
    int tracked = !in_shim && MODE && abs_path(dirfd, path, ap) == 0 && under_root(ap);
    int creating = 0;
    if (tracked && (flags & (O_CREAT | O_TRUNC))) {
        struct stat st;
        int exists = lstat(ap, &st) == 0;
        creating = (!exists && (flags & O_CREAT)) || (exists && (flags & O_TRUNC) && st.st_size > 0);
        if (creating) event(exists ? "open_trunc" : "creat", ap, 0, 0, 0);
    }
    int fd;
    if (dirfd == AT_FDCWD) fd = use64 ? real_open64(path, flags, mode) : real_open(path, flags, mode);
    else fd = use64 ? real_openat64(dirfd, path, flags, mode) : real_openat(dirfd, path, flags, mode);
    if (tracked && fd >= 0) {
        track(fd, ap);
        if (creating) {
            DIRTY = 1;
            if (MODE == 2 && POWERLOSS) { // directory entry is kept, data empty until fsync
                in_shim = 1;
                char dp[PATH_MAX]; dur_path(ap, dp);
                int d = real_open(dp, O_WRONLY | O_CREAT | O_TRUNC | O_CLOEXEC, 0666);
                if (d >= 0) real_close(d);
                DURDIRTY = 1;
                in_shim = 0;
            }
        }
    }
    return fd;
}

int open(const char *path, int flags, ...) {
    mode_t mode = 0;
    if (flags & (O_CREAT | O_TMPFILE)) { va_list ap; va_start(ap, flags); mode = va_arg(ap, mode_t); va_end(ap); }
    return do_open(AT_FDCWD, path, flags, mode, 0);
}
int open64(const char *path, int flags, ...) {
    mode_t mode = 0;
    if (flags & (O_CREAT | O_TMPFILE)) { va_list ap; va_start(ap, flags); mode = va_arg(ap, mode_t); va_end(ap); }
    return do_open(AT_FDCWD, path, flags, mode, 1);
}
int openat(int dirfd, const char *path, int flags, ...) {
    mode_t mode = 0;
    if (flags & (O_CREAT | O_TMPFILE)) { va_list ap; va_start(ap, flags); mode = va_arg(ap, mode_t); va_end(ap); }
    return do_open(dirfd, path, flags, mode, 0);
}
int openat64(int dirfd, const char *path, int flags, ...) {
    mode_t mode = 0;
    if (flags & (O_CREAT | O_TMPFILE)) { va_list ap; va_start(ap, flags); mode = va_arg(ap, mode_t); va_end(ap); }
    return do_open(dirfd, path, flags, mode, 1);
}

int close(int fd) {
    init();
    if (!in_shim) track(fd, NULL);
    return real_close(fd);
}

static long long write_offset(int fd) {
    int fl = fcntl(fd, F_GETFL);
    if (fl >= 0 && (fl & O_APPEND)) { struct stat st; if (fstat(fd, &st) == 0) return st.st_size; }
    return (long long)lseek(fd, 0, SEEK_CUR);
}

ssize_t write(int fd, const void *buf, size_t count) {
    init();
    const char *p = in_shim ? NULL : pathof(fd);
    if (p) {
        int j = is_journal(p);
        if (event("write", p, write_offset(fd), (long long)count, j)) {
            if (FAIL_SHORT > 0 && (size_t)FAIL_SHORT < count) { DIRTY = 1; return real_write(fd, buf, (size_t)FAIL_SHORT); }
            errno = FAIL_ERRNO; return -1;
        }
        DIRTY = 1;
    }
    return real_write(fd, buf, count);
}

ssize_t pwrite64(int fd, const void *buf, size_t count, off64_t off) {
    init();
    const char *p = in_shim ? NULL : pathof(fd);
    if (p) {
        if (event("pwrite", p, (long long)off, (long long)count, is_journal(p))) { errno = FAIL_ERRNO; return -1; }
        DIRTY = 1;
    }
    return real_pwrite64(fd, buf, count, off);
}
ssize_t pwrite(int fd, const void *buf, size_t count, off_t off) { return pwrite64(fd, buf, count, off); }

ssize_t writev(int fd, const struct iovec *iov, int cnt) {
    init();
    const char *p = in_shim ? NULL : pathof(fd);
    if (p) {
        long long total = 0;
        for (int i = 0; i < cnt; i++) total += iov[i].iov_len;
        if (event("writev", p, write_offset(fd), total, is_journal(p))) { errno = FAIL_ERRNO; return -1; }
        DIRTY = 1;
    }
    return real_writev(fd, iov, cnt);
}

static int do_sync(int fd, const char *name, int (*real)(int)) {
    init();
    const char *p = in_shim ? NULL : pathof(fd);
    if (p) {
        if (event(name, p, 0, 0, is_journal(p))) { errno = FAIL_ERRNO; return -1; }
        if (MODE == 2 && POWERLOSS) {
            struct stat st;
            if (fstat(fd, &st) == 0 && S_ISREG(st.st_mode)) {
                in_shim = 1;
                char dp[PATH_MAX]; dur_path(p, dp);
                copy_file(p, dp);
                DURDIRTY = 1;
                in_shim = 0;
            }
        }
    }
    return real(fd);
}
int fsync(int fd) { init(); return do_sync(fd, "fsync", real_fsync); }
int fdatasync(int fd) { init(); return do_sync(fd, "fdatasync", real_fdatasync); }

int ftruncate64(int fd, off64_t len) {
    init();
    const char *p = in_shim ? NULL : pathof(fd);
    if (p) { event("ftruncate", p, (long long)len, 0, 0); DIRTY = 1; }
    return real_ftruncate64(fd, len);
}
int ftruncate(int fd, off_t len) { return ftruncate64(fd, len); }

static void dur_unlink(const char *ap, int isdir) {
    if (MODE == 2 && POWERLOSS) {
        in_shim = 1;
        char dp[PATH_MAX]; dur_path(ap, dp);
        if (isdir) rm_tree(dp); else real_unlink(dp);
        DURDIRTY = 1;
        in_shim = 0;
    }
}

int unlink(const char *path) {
    init();
    char ap[PATH_MAX];
    if (!in_shim && abs_path(AT_FDCWD, path, ap) == 0 && under_root(ap)) { event("unlink", ap, 0, 0, 0); DIRTY = 1; dur_unlink(ap, 0); }
    return real_unlink(path);
}
int unlinkat(int dirfd, const char *path, int flags) {
    init();
    char ap[PATH_MAX];
    if (!in_shim && abs_path(dirfd, path, ap) == 0 && under_root(ap)) {
        event((flags & AT_REMOVEDIR) ? "rmdir" : "unlink", ap, 0, 0, 0); DIRTY = 1; dur_unlink(ap, flags & AT_REMOVEDIR);
    }
    return real_unlinkat(dirfd, path, flags);
}
int rmdir(const char *path) {
    init();
    char ap[PATH_MAX];
    if (!in_shim && abs_path(AT_FDCWD, path, ap) == 0 && under_root(ap)) { event("rmdir", ap, 0, 0, 0); DIRTY = 1; dur_unlink(ap, 1); }
    return real_rmdir(path);
}

static void dur_rename(const char *a, const char *b) {
    if (MODE == 2 && POWERLOSS) {
        in_shim = 1;
        char da[PATH_MAX], db[PATH_MAX]; dur_path(a, da); dur_path(b, db);
        real_rename(da, db);
        DURDIRTY = 1;
        in_shim = 0;
    }
}
int rename(const char *a, const char *b) {
    init();
    char pa[PATH_MAX], pb[PATH_MAX];
    if (!in_shim && abs_path(AT_FDCWD, a, pa) == 0 && abs_path(AT_FDCWD, b, pb) == 0 && under_root(pa) && under_root(pb)) {
        event("rename", pa, 0, 0, 0); DIRTY = 1; dur_rename(pa, pb);
    }
    return real_rename(a, b);
}
int renameat(int fa, const char *a, int fb, const char *b) {
    init();
    char pa[PATH_MAX], pb[PATH_MAX];
    if (!in_shim && abs_path(fa, a, pa) == 0 && abs_path(fb, b, pb) == 0 && under_root(pa) && under_root(pb)) {
        event("rename", pa, 0, 0, 0); DIRTY = 1; dur_rename(pa, pb);
    }
    return real_renameat(fa, a, fb, b);
}

int mkdir(const char *path, mode_t mode) {
    init();
    char ap[PATH_MAX];
    if (!in_shim && abs_path(AT_FDCWD, path, ap) == 0 && under_root(ap)) {
        struct stat st;
        if (lstat(ap, &st) < 0) {
            event("mkdir", ap, 0, 0, 0); DIRTY = 1;
            if (MODE == 2 && POWERLOSS) { in_shim = 1; char dp[PATH_MAX]; dur_path(ap, dp); real_mkdir(dp, 0777); DURDIRTY = 1; in_shim = 0; }
        }
    }
    return real_mkdir(path, mode);
}
int mkdirat(int dirfd, const char *path, mode_t mode) {
    init();
    char ap[PATH_MAX];
    if (!in_shim && abs_path(dirfd, path, ap) == 0 && under_root(ap)) {
        struct stat st;
        if (lstat(ap, &st) < 0) {
            event("mkdir", ap, 0, 0, 0); DIRTY = 1;
            if (MODE == 2 && POWERLOSS) { in_shim = 1; char dp[PATH_MAX]; dur_path(ap, dp); real_mkdir(dp, 0777); DURDIRTY = 1; in_shim = 0; }
        }
    }
    return real_mkdirat(dirfd, path, mode);
}

// Final image when the driver asks for it (after the last operation, database still open or dropped).
void fjallfs_final_image(void) {
    init();
    if (MODE) event("final", ROOT, 0, 0, 0); // numbered in every mode, so call numbers agree between modes
}
