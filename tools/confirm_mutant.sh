#!/bin/bash
# confirm_mutant.sh <PID> <k>  : independently confirms a sub-agent's mutant in a scratch worktree of /repo (pinned base commit):
#  (1) existing suite passes with the change, (2) demo fails with it, (3) demo passes without it.
# Writes /tmp/seedchk/<PID>_<k>.result ; on success copies into /verif/seeded/<PID>-<k>/
set -u
PID=$1; K=$2
SRC=/tmp/mut/$PID/out/$K
WT=/tmp/seedchk/wt_${PID}_$K
mkdir -p /tmp/seedchk
# base commit: the first of the known /repo states the patch applies to
BASE=""
for b in ${BASES:-38b246d 900fe01 47ba31a fac8f5b HEAD}; do
  if git -C /repo worktree add -q --detach /tmp/seedchk/probe_$$ $b 2>/dev/null; then
    if git -C /tmp/seedchk/probe_$$ apply --check $SRC/patch.diff 2>/dev/null; then BASE=$b; fi
    git -C /repo worktree remove --force /tmp/seedchk/probe_$$
    [ -n "$BASE" ] && break
  fi
done
[ -z "$BASE" ] && BASE=HEAD
export CARGO_TARGET_DIR=/tmp/seedchk/target CARGO_NET_OFFLINE=true
mkdir -p /tmp/seedchk
RES=/tmp/seedchk/${PID}_$K.result
echo "base=$BASE" > $RES
git -C /repo worktree remove --force $WT 2>/dev/null
git -C /repo worktree add -q --detach $WT $BASE || { echo "worktree failed" >> $RES; exit 2; }
cd $WT
if ! git apply $SRC/patch.diff; then echo "PATCH DOES NOT APPLY" >> $RES; git -C /repo worktree remove --force $WT; exit 2; fi
# (1) suite with mutant (without demo)
cargo test --workspace --no-fail-fast --offline > /tmp/seedchk/${PID}_$K.suite.log 2>&1
FAILED=$(grep -E "^test [^ ]+ (- [^.]* )?\.\.\. FAILED" /tmp/seedchk/${PID}_$K.suite.log | grep -v write_buffer_size | grep -c FAILED)
echo "suite_with_mutant_failed_tests=$FAILED" >> $RES
grep -E "^test .* FAILED" /tmp/seedchk/${PID}_$K.suite.log >> $RES
# (2) demo with mutant
if [ -f $SRC/demo.rs ]; then
  cp $SRC/demo.rs tests/zz_demo_$K.rs
  timeout 900 cargo test --offline --test zz_demo_$K > /tmp/seedchk/${PID}_$K.demo_mut.log 2>&1
  echo "demo_with_mutant_exit=$?" >> $RES
  # (3) demo without mutant
  git apply -R $SRC/patch.diff
  timeout 900 cargo test --offline --test zz_demo_$K > /tmp/seedchk/${PID}_$K.demo_clean.log 2>&1
  echo "demo_without_mutant_exit=$?" >> $RES
else
  echo "no demo.rs (custom demo), needs manual confirmation" >> $RES
fi
cd /
git -C /repo worktree remove --force $WT
cat $RES
