#!/bin/bash
# confirm_queue.sh "<PID> <k>" ... : confirms sub-agent mutants one after the other (serialised across invocations by a lock)
mkdir -p /tmp/seedchk
exec 9>/tmp/seedchk/queue.lock
flock 9
for pk in "$@"; do
  set -- $pk
  BASES=HEAD /verif/tools/confirm_mutant.sh $1 $2 > /tmp/seedchk_$1$2.log 2>&1
done
