#!/usr/bin/env python3
"""Generates /verif/MANIFEST.json from the table below (kept next to the checks it describes)."""
import json, os, subprocess
ROOT = os.path.dirname(os.path.dirname(os.path.abspath(__file__)))

CHECKS = {
 "C01": dict(level="model_checking", engine="E1-seqcheck", design="§3, §6 C01",
   technique="bounded exhaustive enumeration of operation programs on the real database (stateless explicit-state search, stepped background work) against a BTreeMap reference model",
   text="Every operation program up to the stated depth over the stated alphabets (writes, batches, clears, ingestions, memtable rotation, each queued worker message in every order, major compaction, journal rotation) is executed on the real fjall+lsm-tree code from several start states and configurations; after each program every read method over a fixed probe set is compared with a sorted reference map. Exhaustive within the bounds reported in the evidence file; nothing is sampled.",
   note="Bounded: key universe {a,ab,b}, 4 values, depth bounds per pass as reported; background work is executed one message at a time on the caller's thread (real worker_tick), so thread interleavings inside maintenance are out of scope here (C14). lsm-tree is exercised, not modelled."),
 "C04": dict(level="model_checking", engine="E1-seqcheck", design="§3, §6 C04",
   technique="bounded exhaustive enumeration of operation programs with close/reopen on the real database against a BTreeMap reference model",
   text="Every program up to the stated depth mixing writes, batches, transaction commits, clear, bulk ingestion (also over existing keys), rotation, every queued worker message in every order, journal rotation, major compaction and up to three close/reopen cycles is executed on the real code under several configurations and start states; every state reached through a reopen must show exactly the model content through every read method (point reads and scans included) and the same keyspace set.",
   note="Bounded depth/alphabet as reported in the evidence; clean close only (crash images are C02's). Two signatures of one genuine defect (ingested tombstone + compaction + reopen) are listed in known_findings.txt."),
 "C03": dict(level="fault_enumeration", engine="E2-crashcheck (byte cuts)", design="§4, §6 C03",
   technique="exhaustive enumeration of every byte offset at which the journal of a real write history can end (EOF and zero-padded), recovery by the real code compared with a prefix model",
   text="For each batch/transaction shape (1..6 items, one and two keyspaces, tombstones, clears, empty values, values on both sides of the compression threshold with Lz4 and None, transactions overwriting one key several times, consecutive batches) the journal produced by the real write path is cut at every byte offset, once ending there and once zero-padded to its preallocated size (which also covers every split point of every write() call); the real recovery must yield exactly the batches that end at or before the cut, never a partial batch, and a batch appended to the repaired journal must be recovered by the next reopen.",
   note="The image is the OS view of the files while the database is open (process crash). Garbage tails are out of scope of the property. Large records are cut at every byte only in the thorough tier (quick: edges + 32 payload offsets + buffer boundaries)."),
 "C02": dict(level="fault_enumeration", engine="E2-crashcheck (shim)", design="§4, §6 C02",
   technique="exhaustive crash-point enumeration: a directory image before every file-mutating libc call of every program of a bounded set (LD_PRELOAD shim on the real code), plus torn-write splits; each image recovered by the real code and compared with a prefix model",
   text="All maximal programs of a small alphabet (writes, batches, transactions of both kinds, clear, keyspace creation, rotation, every queued worker message with and without journal rotation, reopen) up to a depth, plus prepared states (two sealed journals, pending compaction), are run under an interposition shim that numbers every file-mutating libc call and takes the directory image a process killed at that point would leave; every distinct image (and torn variants of journal and table writes) is recovered: open must succeed and the union of all keyspaces must equal the model after exactly the acknowledged operations, possibly plus the in-flight one; afterwards overwrites, removes and a further reopen must behave. The image mechanism is cross-checked against real kills.",
   note="Single-threaded driver. Images before the first open returned are judged by C17's rule, not C02's. Every byte split of journal appends is C03's; here marker edges/middle/ends."),
 "C06": dict(level="model_checking", engine="E3-schedcheck", design="§5, §6 C06",
   technique="stateless model checking of the real code under a controlled scheduler: all thread interleavings up to a preemption bound (iterative context bounding, CHESS style) at cfg-gated scheduling points",
   text="Bodies of 2-4 real threads (a writer committing batches/transactions over two keyspaces, a reader taking a snapshot or doing one scan, and a third party: fjall's own worker thread flushing/compacting another keyspace, an insert/clear/ingest/delete/create elsewhere, a rotation) are executed under a scheduler that lets exactly one thread run between hooked fjall-level operations; every schedule with at most the stated number of preemptions is executed, cheapest first, and every snapshot/scan must see each batch entirely or not at all and in commit order.",
   note="Trusted base: lsm-tree calls are atomic steps; sequentially consistent exploration. One genuine defect (lsm-tree raises the shared visible seqno mid-batch) is listed in known_findings.txt."),
 "C10": dict(level="model_checking", engine="E1-seqcheck", design="§3, §6 C10",
   technique="bounded exhaustive enumeration of multi-keyspace programs with every order of queued background work and journal rotations on the real code; invariant on every journal deletion plus a crash image recovery at that instant",
   text="Every program up to the stated depth over inserts into 2-3 keyspaces, a cross-keyspace batch, rotation of each keyspace, every queued worker message in every order with and without journal rotation, keyspace deletion and reopen is executed on the real code; whenever a journal file disappears it must be the oldest, must contain no record above its keyspace's persisted seqno, and a crash image taken at that instant must recover the acknowledged state; at the end of every program all keyspaces are flushed and the journal count must return to one.",
   note="Journal rotation is triggered through the cfg-gated position override (real threshold 64 MB). clear() is excluded (a cleared keyspace legitimately pins journals)."),
 "C12": dict(level="model_checking", engine="E1-seqcheck + E2-crashcheck", design="§3, §4, §6 C12",
   technique="bounded exhaustive enumeration of create/write/delete/re-create/reopen programs on the real code with provenance-carrying values, plus crash-point enumeration of the same kind of programs",
   text="Every program up to the stated depth over names {x,y,z} (create, open existing with other options, writes, delete with and without surviving handles, writes through old handles, rotation, worker steps, journal rotation, reopen) runs on the real code; values carry the keyspace incarnation that wrote them, so after every step list/exists/count and every keyspace's full observation are compared with the model: a re-created name is empty, nothing of a deleted incarnation appears anywhere, old handles are refused, folders are gone once the database is dropped. The same kind of programs are crash-tested before every file-mutating call.",
   note="Folder removal is asserted when the database has been dropped (internal handles legitimately delay it)."),
 "C14": dict(level="model_checking", engine="E3-schedcheck", design="§5, §6 C14",
   technique="stateless model checking of the real code under a controlled scheduler (all interleavings up to a preemption bound) with a brute-force linearizability check of every recorded history",
   text="Bodies of 2-3 client threads doing 1-2 single operations on colliding keys through cloned handles, optionally with fjall's own worker threads (tiny memtable, prepared write stall, journal rotation), are executed under every schedule with at most the stated number of preemptions; the call/return history of point operations must be linearizable against a map, scans must satisfy the clause the statement gives them, nothing may error, deadlock or livelock within the horizon.",
   note="Trusted base: lsm-tree calls are atomic steps; sequentially consistent exploration; liveness only as absence of deadlock/livelock within the horizon."),
 "C15": dict(level="fault_enumeration", engine="E2-crashcheck (journal surgery)", design="§4, §6 C15",
   technique="exhaustive enumeration of a product of record shapes for the round trip and of every single-byte alteration of real journals, each recovered by the real code",
   text="(a) The product of key lengths, value lengths around the compression threshold and the buffer size, contents, tombstone kinds, clear, batch shapes and both compression settings at write and at read time is written by the real write path, crash-imaged and recovered: bytes must be identical. (b) For six representative journals every byte of the used part is altered (13 alterations per byte in the quick tier, all 255 in the thorough tier) and the image recovered: open must fail or yield exactly a prefix of the commit history.",
   note="Single-byte damage only. One genuine defect (Start-marker seqno outside the checksum) is listed in known_findings.txt."),
 "C18": dict(level="model_checking", engine="E1-seqcheck", design="§3, §6 C18",
   technique="bounded exhaustive enumeration of operation programs on the real database for every assignment function and filter, with a per-key original/filtered automaton as oracle",
   text="For every assignment function over keyspace names {x,y} and deterministic filters decided from the key (keep / remove / replace / both), every program up to the stated depth over writes, batches, rotation, every queued worker message (flush and compaction), major compaction and reopen with the same assigner runs on the real code (also with key-value separation); after every step each key must be in its original or its filtered form, stay filtered once observed filtered until rewritten, be filtered after a major compaction that covered it, and keys with verdict keep or in unassigned keyspaces must equal the plain model; scans and point reads agree.",
   note="Verdicts Keep/Remove/ReplaceValue only. One genuine defect (a removed item is replayed from the journal after reopen) is listed in known_findings.txt."),
 "C11": dict(level="model_checking", engine="E1-seqcheck", design="§3, §6 C11",
   technique="bounded exhaustive enumeration of pre-reopen histories on the real database; after each history the oracle reopens 1-3 times and drives a superseding suffix, comparing every read method with a BTreeMap model and checking the seqno clause",
   text="Every program up to the stated depth over inserts, removes, batches, clear, ingestion, rotation, every queued worker message, journal rotation, major compaction and keyspace create/delete, from the empty database and from prepared states (last level + L0 + memtable, tombstone over value, two sealed journals with a lagging keyspace, meta keyspace holding the highest seqnos), is followed by 1-3 reopen cycles; after each reopen the next seqno must exceed every seqno in every keyspace and journal record on disk, a fresh snapshot must equal the handles' view, overwrites must replace and removes hide recovered data through every read method, new snapshots must show recovered plus new data, and created/deleted keyspaces must stay so across a final reopen.",
   note="The model is re-synchronised after each reopen (fidelity of the reopen itself is C04's); crash images get the same superseding suffix in C02."),
 "C16": dict(level="model_checking", engine="E1-optionsweep", design="§6 C16",
   technique="exhaustive enumeration of a finite option-value domain (defaults, every single value, every pair of values of different options) on the real database with create / reopen / reopen-with-other-options cycles",
   text="For every single value and every pair of values of a boundary-value domain per option (policy vectors of length 1,2,3,7,255, memtable sizes, flags, Leveled and FIFO parameters, blob options) a keyspace is created on the real database, then reopened three times while being opened with maximally different options; every option field, read back through the doc-hidden config, a cfg-gated accessor for the crate-private scalars, the strategy's name and encoded config and float bit patterns, must equal the creation values; max_memtable_size is cross-checked behaviourally.",
   note="Pairs, not all combinations. Exhaustive over the stated finite domain."),
 "C17": dict(level="model_checking", engine="E1-seqcheck (handle programs, marker sweep) + E3-schedcheck", design="§3, §5, §6 C17",
   technique="bounded exhaustive enumeration of handle open/clone/drop programs and of version-marker contents on the real code, plus controlled-scheduler exploration (all interleavings up to a preemption bound) of handles dropped while fjall's own workers run",
   text="Every program up to the stated depth over cloning database handles, opening/cloning keyspace handles, writing, queueing background work, snapshots, dropping any handle and attempting a second open as each of the three database types is executed for each database type: while a handle lives the second open must return Locked and leave the directory hash unchanged; after the last drop every type must open and show the last write (with real worker threads: no worker thread may remain). Every marker byte string up to the stated length over a boundary alphabet, all version bytes, a reduced set on databases with tables and with a rotated-away first journal, and the v1/v2 fixtures must be refused unmodified unless they start with the current header. Under the controlled scheduler the last handle drop must return only after every file of the directory is closed, in every schedule up to the preemption bound.",
   note="Snapshots hold no database handle. Extra bytes after a correct header are outside the property. Four genuine defects found here were repaired (see known_findings.txt, fixed: lines)."),
 "C05": dict(level="model_checking", engine="E1-seqcheck (views) + E3-schedcheck", design="§3, §5, §6 C05",
   technique="bounded exhaustive enumeration of programs interleaving writes and maintenance with view lifetimes on the real code (every live view compared with a frozen model clone after every step), plus controlled-scheduler exploration of readers against writers and workers",
   text="Every program up to the stated depth over writes, removes, clear, ingestion, rotation, every queued worker message, major compaction and view operations (Database::snapshot and clones, Keyspace::iter/range/prefix and the snapshot variants advanced from either end at any later time, write transactions of both kinds including two opened at one instant, commit, close in any order) runs on the real code; after every step every live view's complete observation must equal the model frozen at its creation (plus its own writes) and iterators must yield exactly the frozen range; the snapshot tracker is monitored and, when a live instant is no longer protected, a garbage-collecting continuation is run and the views observed again (a read must neither change nor fail). Under the controlled scheduler a reader reads twice through one snapshot while a writer, rotations and fjall's own worker run, for every schedule up to the preemption bound.",
   note="At most 3 simultaneous views. Two genuine defects found here were repaired (fixed: lines in known_findings.txt)."),
 "C08": dict(level="model_checking", engine="E1-seqcheck (transactions) + E3-schedcheck", design="§3, §5, §6 C08",
   technique="bounded exhaustive enumeration of in-transaction programs on both transactional databases against an overlay model, plus controlled-scheduler exploration (all interleavings up to a preemption bound) of competing increment transactions",
   text="For both transactional databases every program up to the stated depth of in-transaction inserts, removes, take, fetch_update and update_fetch (closures keep/change/delete) on overlapping keys of two keyspaces over a non-empty snapshot, ending in commit, rollback or drop, runs on the real code; after every step every read method inside the transaction equals snapshot+own writes, return values are the documented ones, and outside nothing is visible; after the ending the outside view (and a reopen) shows exactly the final write per key or no change. Competing read-modify-write transactions (explicit and via the keyspace helpers) are run under every schedule up to the preemption bound: no committed increment may be lost and single-writer critical sections never overlap.",
   note="One open transaction in the sequential part; serializability of interleaved optimistic transactions is C07's."),
 "C07": dict(level="model_checking", engine="E1-histories + E3-schedcheck", design="§3, §5, §6 C07",
   technique="exhaustive enumeration of bounded transaction histories (2-3 optimistic transactions, every read and write method, every begin/commit order, every interleaving for small shapes, maintenance at every position) on the real database with a brute-force serializability oracle; controlled-scheduler exploration of the commit path",
   text="Histories of two transactions with every interleaving of all events, of two transactions covering every read method x every write method in every begin/commit order, of three transactions in every begin/commit order, and the same with a maintenance step at every position, are executed on the real OptimisticTxDatabase; for each history every serial order of the committed transactions consistent with real time is tried: one must reproduce every read result and the final state, and refused transactions must have no effect. Write-skew and lost-update bodies run under the controlled scheduler with scheduling points inside the commit oracle for every schedule up to the preemption bound.",
   note="Keys {a,ab,b}; in the larger families a transaction's steps sit right after its begin (only begin/commit order matters for snapshot reads; validated by the all-interleavings family). A Conflict alone is never a violation. One genuine defect (size_of untracked) was repaired."),
 "C09": dict(level="fault_enumeration", engine="E2-crashcheck (shim, power-loss images)", design="§4, §6 C09",
   technique="exhaustive power-loss enumeration: the shim maintains a shadow tree holding each file as of its last fsync/fdatasync and images it before every numbered libc call of every program of a bounded set; each image is recovered by the real code",
   text="All maximal programs up to the stated depth over inserts, batches and transactions with every durability level, persist in every mode, rotation, worker steps with and without journal rotation and reopen, under automatic and manual journal persist (plus fixed longer programs for the rotation and drop fences), run under the shim; at every later call the power-loss image (all unsynced file data dropped) must open and contain every write acknowledged before the last completed persist(SyncData|SyncAll), Sync-durability commit, journal rotation or database drop; with manual persist the process-crash images are judged with persist(Buffer) as the fence.",
   note="The adversary drops all unsynced file data and keeps directory operations. The property promises survival, not atomicity of unsynced batches: images that are no exact prefix but contain every synced write are counted, not judged."),
 "C13": dict(level="fault_enumeration", engine="E2-crashcheck (shim, fault injection)", design="§4, §6 C13",
   technique="exhaustive fault injection: for every program of a bounded set and every n, the n-th write/fsync/fdatasync on a journal file fails (EIO, ENOSPC, short writes) under the LD_PRELOAD shim; fail-stop and recovery oracle on the real code",
   text="All maximal programs up to the stated depth over small and large inserts, removes, clear, small and buffer-spilling batches, transaction commits and persist calls, under automatic and manual journal persist, each followed by a probe of every write kind, are run once per journal operation n with that operation failing: the operation in flight must report an error, every later operation of every kind must be refused, and a fault-free reopen must show all previously acknowledged writes and the failed one entirely or not at all.",
   note="Faults on journal files only; single-threaded driver. One genuine defect (batch/clear did not poison on append errors) was repaired."),
}

NOT_YET = {
}

def main():
    props = [json.loads(l) for l in open(os.path.join(ROOT, "properties.jsonl"))]
    try:
        hooks = subprocess.check_output(["git", "-C", "/repo", "log", "--format=%H %s"], text=True).splitlines()
        hook_commits = [l.split()[0] for l in hooks if l.split(" ", 1)[1].startswith("verif hooks")]
    except Exception:
        hook_commits = []
    checks = []
    na = []
    for p in props:
        pid = p["id"]
        c = CHECKS.get(pid)
        if not c:
            na.append({"property_id": pid, "reason": NOT_YET.get(pid, "no check registered in this revision of /verif (machinery for this property is not built yet); see DESIGN.md §6 for the plan")})
            continue
        checks.append({
            "property_id": pid,
            "quick_cmd": f"./run {pid} quick",
            "thorough_cmd": f"./run {pid} thorough",
            "evidence_file": f"/verif/evidence/{pid}.json",
            "replay_cmd_template": "./run --replay {path}",
            "engine": c["engine"],
            "level_claimed": {"category": c["level"], "text": c["text"], "design_ref": c["design"]},
            "level_note": c["note"],
            "technique": c["technique"],
        })
    m = {
        "version": 1,
        "setup_cmd": "./run --setup",
        "hooks": {
            "guard": "fjall_verif",
            "enable": "RUSTFLAGS-equivalent `--cfg fjall_verif` set in /verif/harness/.cargo/config.toml (build.rustflags); the harness crate path-depends on /repo, so every check rebuilds fjall from /repo's working tree with hooks on",
            "baseline_off_cmd": "cd /repo && (cargo nextest run --workspace --no-fail-fast --test-threads 8 --offline || cargo test --workspace --no-fail-fast --offline)",
            "source_commits": hook_commits,
            "add_only": True,
        },
        "engines": [
            {"name": "E1-seqcheck", "path": "harness/src/explore.rs", "serves_properties": sorted(k for k, v in CHECKS.items() if "E1" in v["engine"]),
             "kind_free_text": "stateless explicit-state exploration: all operation programs up to a depth, executed on the real database with background work stepped message by message"},
            {"name": "E2-crashcheck", "path": "harness/src/crash.rs + shim/fjallfs.c", "serves_properties": sorted(k for k, v in CHECKS.items() if "E2" in v["engine"]),
             "kind_free_text": "exhaustive crash-point / torn-write / power-loss / I/O-fault / byte-corruption enumeration of real write histories via an LD_PRELOAD file-system shim and direct journal surgery"},
            {"name": "E3-schedcheck", "path": "harness/src/sched.rs", "serves_properties": sorted(k for k, v in CHECKS.items() if "E3" in v["engine"]),
             "kind_free_text": "CHESS-style controlled scheduler over real OS threads (cfg-gated yield hooks in fjall): all interleavings up to a preemption bound"},
        ],
        "checks": checks,
        "not_applicable": na,
        "notes": "One command per property: ./run <ID> <quick|thorough>. Exit 0 = held on everything explored (KNOWN-FINDING lines for listed genuine defects), 1 = VIOLATION line(s), >=2 = machinery failure. Known findings: /verif/known_findings.txt. Seeded changes: /verif/seeded/.",
    }
    json.dump(m, open(os.path.join(ROOT, "MANIFEST.json"), "w"), indent=1)
    print("checks:", [c["property_id"] for c in checks], "not_applicable:", len(na))

if __name__ == "__main__":
    main()
