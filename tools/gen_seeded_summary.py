#!/usr/bin/env python3
"""Regenerates seeded/SUMMARY.md from seeded/*/meta.json."""
import glob, json, os
rows = []
for p in sorted(glob.glob("/verif/seeded/*/meta.json")):
    d = json.load(open(p))
    det = d.get("detected_by", [])
    caught = sorted({x["check"] for x in det if x.get("detected")})
    silent = sorted({x["check"] for x in det if not x.get("detected")} - set(caught))
    target = d["breaks_property"]
    note = ""
    if target not in caught:
        note = d.get("target_note", "target check silent")
    rows.append((d["id"], target, ", ".join(os.path.relpath(f, "") for f in d.get("changed_files", [])), ", ".join(caught) or "-", ", ".join(silent) or "-", str(d.get("confirmation", {}).get("confirmed")), note))
out = ["# Seeded changes and the checks that catch them", "",
       "Generated from `seeded/*/meta.json` by tools/gen_seeded_summary.py (results of tools/run_seeded.py; quick tier unless noted).", "",
       "| id | breaks | files | caught by | run but silent | confirmed (suite green / demo fails / demo passes clean) | note |", "|---|---|---|---|---|---|---|"]
for r in rows:
    out.append("| " + " | ".join(r) + " |")
n = len(rows)
by_target = sum(1 for r in rows if r[1] in r[3].split(", "))
by_any = sum(1 for r in rows if r[3] != "-")
out += ["", f"{n} changes; {by_target} caught by the check of the property they were written against; {by_any} caught by at least one check."]
open("/verif/seeded/SUMMARY.md", "w").write("\n".join(out) + "\n")
print(out[-1])
