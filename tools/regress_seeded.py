#!/usr/bin/env python3
"""regress_seeded.py [ids...] : re-runs every seeded change against the CURRENT machinery on a private copy of the repository
(/tmp/seedreg/repo, a git worktree) and of the harness (/tmp/seedreg/harness), so that /repo and /verif stay untouched.
For each change the checks that detected it before (meta.json detected_by, detected=true) are run in the quick tier; prints
which detections were lost. Results: /tmp/seedreg/results.jsonl"""
import json, os, subprocess, sys, glob, shutil, time
R = "/tmp/seedreg"
def sh(cmd, **kw):
    return subprocess.run(cmd, shell=True, text=True, capture_output=True, **kw)
os.makedirs(R, exist_ok=True)
if not os.path.isdir(f"{R}/repo"):
    sh("git -C /repo worktree prune")
    r = sh(f"git -C /repo worktree add --detach {R}/repo HEAD"); assert r.returncode == 0, r.stderr
else:
    sh(f"git -C {R}/repo checkout -q --detach $(git -C /repo rev-parse HEAD) && git -C {R}/repo reset --hard -q && git -C {R}/repo clean -fdq")
shutil.rmtree(f"{R}/harness", ignore_errors=True)
shutil.copytree("/verif/harness", f"{R}/harness", ignore=shutil.ignore_patterns("target"))
t = open(f"{R}/harness/Cargo.toml").read().replace('path = "/repo"', f'path = "{R}/repo"'); open(f"{R}/harness/Cargo.toml", "w").write(t)
os.makedirs(f"{R}/build", exist_ok=True)
shutil.copy("/verif/build/libfjallfs.so", f"{R}/build/"); shutil.copy("/verif/known_findings.txt", R)
ids = sys.argv[1:] or sorted(os.path.basename(d) for d in glob.glob("/verif/seeded/C*-*"))
out = open(f"{R}/results.jsonl", "a")
lost = []
for sid in ids:
    meta = json.load(open(f"/verif/seeded/{sid}/meta.json"))
    checks = [d["check"] for d in meta.get("detected_by", []) if isinstance(d, dict) and d.get("detected")]
    if not checks:
        print(sid, "never detected; skipped"); continue
    # the property's own check first, then at most one more
    own = meta["breaks_property"]
    checks = [own] if own in checks else checks[:1]
    r = sh(f"git -C {R}/repo apply /verif/seeded/{sid}/patch.diff || git -C {R}/repo apply -3 /verif/seeded/{sid}/patch.diff")
    if r.returncode != 0:
        print(sid, "PATCH-DOES-NOT-APPLY"); sh(f"git -C {R}/repo reset --hard -q"); continue
    b = sh(f"cd {R}/harness && CARGO_NET_OFFLINE=true cargo build --release --offline --target-dir {R}/target 2>&1 | tail -3")
    res = {}
    for c in checks:
        t0 = time.time()
        x = sh(f"cd /verif && FJV_ROOT={R} {R}/target/release/fjv check {c} quick")
        o = x.stdout + x.stderr
        det = x.returncode == 1 and any(l.startswith("VIOLATION") for l in o.splitlines())
        res[c] = {"exit": x.returncode, "detected": det, "wall": round(time.time() - t0, 1)}
        if not det:
            lost.append((sid, c, x.returncode))
    sh(f"git -C {R}/repo reset --hard -q && git -C {R}/repo clean -fdq")
    print(sid, res, flush=True)
    out.write(json.dumps({"id": sid, "results": res}) + "\n"); out.flush()
print("LOST:", lost)
