#!/bin/bash
# runs every registered check (tier $1, default quick) sequentially; prints exit code and wall time
TIER=${1:-quick}
cd /verif
for id in $(python3 -c "import json; print(' '.join(c['property_id'] for c in json.load(open('MANIFEST.json'))['checks']))"); do
  s=$(date +%s.%N)
  ./run $id $TIER > /tmp/runall.$id.log 2>&1
  rc=$?
  e=$(date +%s.%N)
  printf "%s exit=%s wall=%.1fs %s\n" $id $rc $(echo "$e - $s" | bc) "$(grep -cE '^KNOWN-FINDING' /tmp/runall.$id.log) known; $(grep -E '^(VIOLATION|MACHINERY)' /tmp/runall.$id.log | head -2 | cut -c1-150 | tr '\n' ' ')"
done
