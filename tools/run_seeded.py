#!/usr/bin/env python3
"""run_seeded.py <seeded id> <check id>... : applies /verif/seeded/<id>/patch.diff to /repo, runs the given checks (quick tier,
or VERIF_TIER), reverts, and records which checks raise a VIOLATION in seeded/<id>/meta.json (detected_by)."""
import json, os, subprocess, sys, time
sid = sys.argv[1]
checks = sys.argv[2:]
tier = os.environ.get("VERIF_TIER", "quick")
d = f"/verif/seeded/{sid}"
patch = f"{d}/patch.diff"
def sh(cmd, **kw):
    return subprocess.run(cmd, shell=True, text=True, capture_output=True, **kw)
assert sh("git -C /repo status --porcelain").stdout.strip() == "", "/repo not clean"
applied = None
for how in (f"git -C /repo apply {patch}", f"git -C /repo apply -3 {patch}"):
    r = sh(how)
    if r.returncode == 0 and sh("git -C /repo diff HEAD --quiet").returncode != 0 and "UU" not in sh("git -C /repo status --short").stdout:
        applied = how
        break
    sh("git -C /repo reset --hard -q && git -C /repo clean -fdq")
if not applied:
    print(sid, "PATCH-DOES-NOT-APPLY")
    sys.exit(3)
# make sure the index is clean again (git apply -3 stages)
sh("git -C /repo reset -q")
sh("mkdir -p /tmp/seedrun/build && cp /verif/known_findings.txt /tmp/seedrun/ && cp /verif/build/libfjallfs.so /tmp/seedrun/build/")
results = {}
try:
    for c in checks:
        t = time.time()
        r = sh(f"cd /verif && FJV_ROOT=/tmp/seedrun ./run {c} {tier}")
        out = r.stdout + r.stderr
        viol = [l for l in out.splitlines() if l.startswith("VIOLATION")]
        sigs = [l.strip() for l in out.splitlines() if "violation signature:" in l][:4]
        mach = [l for l in out.splitlines() if l.startswith("MACHINERY")][:2]
        results[c] = {"exit": r.returncode, "violations": len(viol), "signatures": sigs, "machinery": mach, "wall_s": round(time.time() - t, 1)}
        print(sid, c, "exit", r.returncode, "violations", len(viol), sigs[:1], mach[:1])
finally:
    sh("git -C /repo reset --hard -q && git -C /repo clean -fdq")
assert sh("git -C /repo status --porcelain").stdout.strip() == "", "/repo not clean after revert"
mp = f"{d}/meta.json"
meta = json.load(open(mp))
det = {x["check"]: x for x in meta.get("detected_by", []) if isinstance(x, dict)}
for c, r in results.items():
    det[c] = {"check": c, "tier": tier, "detected": r["exit"] == 1 and r["violations"] > 0, "exit": r["exit"], "signatures": r["signatures"], "machinery": r["machinery"], "applied_with": applied.split()[0:4]}
meta["detected_by"] = list(det.values())
json.dump(meta, open(mp, "w"), indent=1)
