#!/usr/bin/env python3
"""Imports a confirmed sub-agent mutant into /verif/seeded/<PID>-<k>/ (patch.diff, demo.rs, notes.md, meta.json)."""
import json, os, shutil, sys
pid, k = sys.argv[1], sys.argv[2]
src = f"/tmp/mut/{pid}/out/{k}"
res = open(f"/tmp/seedchk/{pid}_{k}.result").read()
conf = dict(l.split("=", 1) for l in res.splitlines() if "=" in l and not l.startswith("test "))
ok = conf.get("suite_with_mutant_failed_tests") == "0" and conf.get("demo_with_mutant_exit") not in (None, "0") and conf.get("demo_without_mutant_exit") == "0"
dst = f"/verif/seeded/{pid}-{k}"
os.makedirs(dst, exist_ok=True)
for f in ("patch.diff", "demo.rs", "notes.md"):
    if os.path.exists(f"{src}/{f}"):
        shutil.copy(f"{src}/{f}", f"{dst}/{f}")
notes = open(f"{src}/notes.md").read() if os.path.exists(f"{src}/notes.md") else ""
files = sorted({l.split(" b/")[-1].strip() for l in open(f"{src}/patch.diff") if l.startswith("diff --git")})
meta = {
    "id": f"{pid}-{k}",
    "breaks_property": pid,
    "changed_files": files,
    "origin": "independent sub-agent given only the property text and a scratch worktree of /repo",
    "needs_to_manifest": "see notes.md",
    "confirmation": {
        "how": "tools/confirm_mutant.sh in a scratch worktree of /repo at the pinned base commit: (1) cargo test --workspace with the change, (2) demo.rs as integration test with the change, (3) demo.rs without it",
        "suite_with_change_failed_tests": conf.get("suite_with_mutant_failed_tests"),
        "demo_with_change_exit": conf.get("demo_with_mutant_exit"),
        "demo_without_change_exit": conf.get("demo_without_mutant_exit"),
        "confirmed": ok,
    },
    "detected_by": [],
}
old = f"{dst}/meta.json"
if os.path.exists(old):
    o = json.load(open(old))
    meta["detected_by"] = o.get("detected_by", [])
    meta["needs_to_manifest"] = o.get("needs_to_manifest", meta["needs_to_manifest"])
json.dump(meta, open(old, "w"), indent=1)
print(pid, k, "confirmed" if ok else "NOT CONFIRMED", conf)
