#!/usr/bin/env python3-vt
import json, sys, glob, jsonschema
m = json.load(open('/verif/MANIFEST.json'))
jsonschema.validate(m, json.load(open('/root/.vp/MANIFEST.schema.json')))
es = json.load(open('/root/.vp/EVIDENCE.schema.json'))
ok = True
for c in m['checks']:
    f = c['evidence_file']
    try:
        e = json.load(open(f))
        jsonschema.validate(e, es)
        assert e['level'] == c['level_claimed']['category'], (e['level'], c['level_claimed']['category'])
        print('ok', f, e['tier'], e.get('violations'))
    except Exception as ex:
        ok = False
        print('BAD', f, str(ex)[:300])
sys.exit(0 if ok else 1)
